"""Helper used while building: create selftest/<ID>/<name>.patch from (file, old, new) against /repo's current tree."""
import difflib
import os
import sys

VERIF = os.path.dirname(os.path.dirname(os.path.abspath(__file__)))


def mk(pid, name, relfile, old, new, count=1):
    path = os.path.join("/repo/src/aiortc", relfile)
    src = open(path).read()
    if src.count(old) < 1:
        raise SystemExit(f"{name}: old text not found in {relfile}")
    if count and src.count(old) != count:
        raise SystemExit(f"{name}: old text occurs {src.count(old)} times in {relfile}")
    dst = src.replace(old, new)
    rel = "src/aiortc/" + relfile
    diff = "".join(difflib.unified_diff(src.splitlines(True), dst.splitlines(True), "a/" + rel, "b/" + rel))
    d = os.path.join(VERIF, "selftest", pid)
    os.makedirs(d, exist_ok=True)
    with open(os.path.join(d, name + ".patch"), "w") as f:
        f.write(diff)
    print("wrote", pid, name, len(diff.splitlines()), "lines")
