#!/bin/sh
# tools/sweep.sh <tier> <seed...>: run every claimed check for the given seeds; print one line per run that is not clean
TIER=$1; shift
cd "$(dirname "$0")/.."
for S in "$@"; do
  for P in $(/venv/bin/python -c "import json; print(' '.join(c['property_id'] for c in json.load(open('MANIFEST.json'))['checks']))"); do
    OUT=$(VERIF_SEED=$S ./check $P --tier $TIER 2>&1); RC=$?
    LINE=$(echo "$OUT" | grep "^\[$P/" | head -1 | cut -c1-200)
    if [ $RC -ne 0 ]; then echo "NOT-CLEAN seed=$S rc=$RC $LINE"; echo "$OUT" | grep "VIOLATION\|what:\|INCONCLUSIVE" | head -6 | cut -c1-400; else echo "ok seed=$S $LINE"; fi
  done
done
