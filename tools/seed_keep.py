"""seed_keep.py <ID> <k> <slug> "<needs>": keep a confirmed sub-agent change as /verif/seeded/<ID>-<slug>/"""
import json
import os
import shutil
import sys

pid, k, slug, needs = sys.argv[1], sys.argv[2], sys.argv[3], sys.argv[4]
src = f"/tmp/seedout/{pid}/{k}"
dst = f"/verif/seeded/{pid[:3]}-{slug}"
os.makedirs(dst, exist_ok=True)
for fn in ("patch.diff", "demo.py", "notes.md"):
    shutil.copy(os.path.join(src, fn), os.path.join(dst, fn))
conf = json.load(open(os.path.join(src, "confirm.json")))
rerun = None
if os.path.exists(os.path.join(src, "failed.txt")):
    rerun = open(os.path.join(src, "failed.txt")).read().split()
meta = {
    "property": pid[:3],
    "origin": "independent sub-agent given only the property text and a scratch worktree of /repo (base: /repo HEAD at the time, see confirm.json)",
    "needs_to_manifest": needs,
    "confirmed": {
        "how": "tools/seed_confirm.sh in the scratch worktree: demo on clean tree, demo with patch, full test suite with patch",
        "demo_clean_rc": conf.get("demo_clean_rc"), "demo_patched_rc": conf.get("demo_patched_rc"),
        "tests": conf.get("tests_tail"),
        "tests_rerun_alone_after_port_collision": rerun,
    },
    "detected_by": None,
}
json.dump(meta, open(os.path.join(dst, "meta.json"), "w"), indent=1)
print("kept", dst)
