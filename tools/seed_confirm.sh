#!/bin/sh
# seed_confirm.sh <ID> <k>: confirm a sub-agent's seeded change in its scratch worktree:
#  demo passes on the clean tree, fails with the patch, full test suite passes with the patch.
# (tests/test_contrib_signaling.py binds a fixed TCP port: it is run under a global lock so that
#  several confirmations can run side by side.)  Writes /tmp/seedout/<ID>/<k>/confirm.json
ID=$1; K=$2; WT=/tmp/seedwt/$ID; OUT=/tmp/seedout/$ID/$K
cd $WT || exit 2
git checkout -q -- . ; git clean -fdq
PYTHONPATH=$WT/src timeout 300 /venv/bin/python $OUT/demo.py >$OUT/demo_clean.log 2>&1; RC_CLEAN=$?
git apply $OUT/patch.diff || { echo "{\"apply\": false}" > $OUT/confirm.json; exit 1; }
PYTHONPATH=$WT/src timeout 300 /venv/bin/python $OUT/demo.py >$OUT/demo_patched.log 2>&1; RC_PATCHED=$?
PYTHONPATH=$WT/src /venv/bin/python -m pytest -q -p no:cacheprovider --timeout=900 tests --ignore=tests/test_contrib_signaling.py >$OUT/tests_patched.log 2>&1; RC_TESTS=$?
PYTHONPATH=$WT/src flock /tmp/seedout/.siglock /venv/bin/python -m pytest -q -p no:cacheprovider --timeout=900 tests/test_contrib_signaling.py >$OUT/tests_patched_sig.log 2>&1; RC_SIG=$?
TAIL="$(tail -1 $OUT/tests_patched.log | tr -d '"') + $(tail -1 $OUT/tests_patched_sig.log | tr -d '"')"
git checkout -q -- . ; git clean -fdq
echo "{\"apply\": true, \"demo_clean_rc\": $RC_CLEAN, \"demo_patched_rc\": $RC_PATCHED, \"tests_rc\": $RC_TESTS, \"tests_sig_rc\": $RC_SIG, \"tests_tail\": \"$TAIL\"}" > $OUT/confirm.json
cat $OUT/confirm.json
