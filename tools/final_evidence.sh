#!/bin/sh
# tools/final_evidence.sh: run every registered quick command once from /verif against /repo (evidence files are rewritten),
# then validate MANIFEST.json and every evidence file against the schemas.
cd "$(dirname "$0")/.."
RC=0
for P in $(/venv/bin/python -c "import json; print(' '.join(c['property_id'] for c in json.load(open('MANIFEST.json'))['checks']))"); do
  OUT=$(./check $P --tier quick 2>&1); R=$?
  echo "$P rc=$R $(echo "$OUT" | grep "^\[$P/" | head -1 | cut -c1-160)"
  [ $R -ne 0 ] && { RC=1; echo "$OUT" | grep "VIOLATION\|what:\|INCONCLUSIVE" | head -4 | cut -c1-300; }
done
python3-vt - <<'PY'
import json, jsonschema, glob
jsonschema.validate(json.load(open('MANIFEST.json')), json.load(open('/root/.vp/MANIFEST.schema.json')))
es = json.load(open('/root/.vp/EVIDENCE.schema.json'))
for f in sorted(glob.glob('evidence/*.json')):
    jsonschema.validate(json.load(open(f)), es)
print("manifest and", len(glob.glob('evidence/*.json')), "evidence files valid")
PY
exit $RC
