#!/bin/sh
# tools/sweep_some.sh <tier> <seed> <ID...>: like sweep.sh for the named checks only
TIER=$1; S=$2; shift 2
cd "$(dirname "$0")/.."
for P in "$@"; do
  OUT=$(VERIF_SEED=$S ./check $P --tier $TIER 2>&1); RC=$?
  LINE=$(echo "$OUT" | grep "^\[$P/" | head -1 | cut -c1-200)
  if [ $RC -ne 0 ]; then echo "NOT-CLEAN seed=$S rc=$RC $LINE"; echo "$OUT" | grep "VIOLATION\|what:\|INCONCLUSIVE" | head -6 | cut -c1-400; else echo "ok seed=$S $LINE"; fi
done
