"""Development helper: tally violation keys of a property over a range of cases, in-process.
usage: PYTHONPATH=/repo/src:/verif:/verif/.deps python tools/keys.py C07 0 448 [tier] [seed]"""
import collections
import sys

from vt.core.runner import case_rng, load_prop

pid = sys.argv[1].upper()
lo, hi = int(sys.argv[2]), int(sys.argv[3])
tier = sys.argv[4] if len(sys.argv) > 4 else "quick"
seed = int(sys.argv[5]) if len(sys.argv) > 5 else 0
mod = load_prop(pid)
if hasattr(mod, "setup"):
    mod.setup(tier)
cnt = collections.Counter()
ex = {}
inc = collections.Counter()
for i in range(lo, hi):
    r = mod.run_case(i, case_rng(seed, pid, i), tier)
    if r.get("inconclusive"):
        inc[r["inconclusive"]] += 1
    for v in r["violations"]:
        cnt[v["key"]] += 1
        ex.setdefault(v["key"], (i, v["what"][:160], str(v.get("witness"))[:200]))
for k, n in cnt.most_common():
    print(n, k, ex[k])
print("inconclusive:", dict(inc))
