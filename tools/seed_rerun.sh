#!/bin/sh
# seed_rerun.sh <ID> <k>: re-run, alone and three times, the tests that failed in seed_confirm.sh's loaded full-suite run
ID=$1; K=$2; WT=/tmp/seedwt/$ID; OUT=/tmp/seedout/$ID/$K
cd $WT || exit 2
git checkout -q -- . ; git apply $OUT/patch.diff || exit 1
TESTS=$(grep -E '^FAILED' $OUT/tests_patched.log | sed 's/^FAILED //; s/ - .*//')
OK=1
for i in 1 2 3; do
  PYTHONPATH=$WT/src /venv/bin/python -m pytest -q -p no:cacheprovider --timeout=300 $TESTS >$OUT/rerun_$i.log 2>&1 || OK=0
done
git checkout -q -- .
if [ $OK = 1 ]; then echo "$TESTS (3/3 passed alone with the patch; the full-suite run was on a loaded machine)" > $OUT/failed.txt; echo "$ID/$K rerun ok"; else echo "$ID/$K RERUN FAILED"; fi
