#!/bin/sh
# Offline setup: contracts library beside the repository's interpreter (git-ignored).
HERE="$(cd "$(dirname "$0")" && pwd)"
mkdir -p "$HERE/.deps"
PIP_NO_INDEX=1 /venv/bin/pip install --quiet --no-index --find-links /opt/veriftools/wheels \
  --target "$HERE/.deps" --upgrade icontract deal >/dev/null 2>&1 || \
PIP_NO_INDEX=1 /venv/bin/pip install --quiet --no-index --find-links /opt/veriftools/wheels \
  --target "$HERE/.deps" --upgrade icontract
/venv/bin/python -c "import sys; sys.path.insert(0, '$HERE/.deps'); import icontract; print('icontract', icontract.__version__)"
