"""./selftest [ID ...]: apply each property-breaking patch under selftest/<ID>/*.patch to a scratch copy of
/repo/src (outside /repo and /verif), run the quick tier against the copy and require that the monitor fires.
Also accepts seeded/<name>/patch.diff via --seeded."""
import glob
import os
import shutil
import subprocess
import sys
import tempfile

VERIF = os.path.dirname(os.path.dirname(os.path.abspath(__file__)))


def run_patch(patch, pid, tier="quick", seed="0"):
    scratch = tempfile.mkdtemp(prefix="vt-selftest-", dir="/tmp")
    try:
        shutil.copytree("/repo/src", os.path.join(scratch, "src"))
        p = subprocess.run(["patch", "-p1", "-s", "-i", patch], cwd=scratch, capture_output=True, text=True)
        if p.returncode != 0:
            return "patch-failed", p.stdout + p.stderr
        env = dict(os.environ, VERIF_REPO_SRC=os.path.join(scratch, "src"), VERIF_SEED=seed)
        r = subprocess.run([os.path.join(VERIF, "check"), pid, "--tier", tier], env=env, capture_output=True,
                           text=True, timeout=3600)
        fired = r.returncode == 1 and "VIOLATION property=" + pid in r.stdout
        return ("caught" if fired else f"MISSED(exit {r.returncode})"), r.stdout[-1500:]
    finally:
        shutil.rmtree(scratch, ignore_errors=True)


def run_seeded(names, tier, verbose):
    """seeded/<ID>-<slug>/patch.diff: apply to a scratch copy of /repo's current tree, run the check(s), record in meta.json."""
    import json

    root = os.path.join(VERIF, "seeded")
    bad = 0
    for name in sorted(os.listdir(root)):
        d = os.path.join(root, name)
        if not os.path.isdir(d) or (names and not any(n in name for n in names)):
            continue
        meta = json.load(open(os.path.join(d, "meta.json")))
        if meta.get("neutralised_by_fix"):
            print(f"seeded {name}: neutralised by a later fix ({str(meta['neutralised_by_fix'])[:60]}...)")
            continue
        props = [meta["property"]] + [x for x in meta.get("also_run", [])]
        manifest = json.load(open(os.path.join(VERIF, "MANIFEST.json")))
        claimed = {c["property_id"] for c in manifest["checks"]}
        results = {}
        for pid in props:
            if pid not in claimed:
                results[pid] = "no-check-yet"
                continue
            patch = os.path.join(d, "patch.current.diff")  # same change re-based when a later fix: commit touched its context
            if not os.path.exists(patch):
                patch = os.path.join(d, "patch.diff")
            status, out = run_patch(patch, pid, tier)
            results[pid] = status
            if verbose or not status.startswith("caught"):
                print("   " + out.replace("\n", "\n   ")[-900:])
        meta["detected_by"] = {"tier": tier, "results": results}
        json.dump(meta, open(os.path.join(d, "meta.json"), "w"), indent=1)
        ok = any(v == "caught" for v in results.values())
        print(f"seeded {name}: {results}")
        if not ok:
            bad += 1
    return bad


def main():
    args = sys.argv[1:]
    if "--seeded" in args:
        args.remove("--seeded")
        tier = "thorough" if "--thorough" in args else "quick"
        verbose = "-v" in args
        names = [a for a in args if not a.startswith("-")]
        sys.exit(1 if run_seeded(names, tier, verbose) else 0)
    tier = "quick"
    if "--thorough" in args:
        tier = "thorough"
        args.remove("--thorough")
    verbose = "-v" in args
    if verbose:
        args.remove("-v")
    ids = [a.upper() for a in args] or sorted(os.listdir(os.path.join(VERIF, "selftest")))
    bad = 0
    for pid in ids:
        for patch in sorted(glob.glob(os.path.join(VERIF, "selftest", pid, "*.patch"))):
            status, out = run_patch(patch, pid, tier)
            print(f"{pid} {os.path.basename(patch)}: {status}")
            if verbose or status != "caught":
                print("   " + out.replace("\n", "\n   ")[-1200:])
            if status != "caught":
                bad += 1
    sys.exit(1 if bad else 0)


if __name__ == "__main__":
    main()
