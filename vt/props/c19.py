"""C19 - close() always completes, is idempotent and leaves nothing running (rig R-PC, step-indexed; DESIGN 3/C19)."""
import asyncio
import threading
import time

from vt.core.batch import Batch

ID = "C19"
LEVEL = "exploration"
RULE = ("Each case = one pair configuration from the C03 generator (media with real tracks, data channels, bundle policies) and "
        "one close mode (offerer / answerer / both at the same step / twice in a row / after the remote side was closed / after "
        "the remote side was black-holed / within a few steps after the application closed a data channel). A baseline run of the scenario 'negotiate -> connect -> exchange media and data for "
        "a while, with one data channel closed by each application on the way' counts its event-loop steps N (every executed asyncio Handle = one step); the scenario is then re-run with "
        "close() fired immediately before step k, for a stratified sample of k in 1..N (quick) or every k (thorough, some "
        "configurations). Oracles per run: await close() completes (decided by a heartbeat + wait-for analysis, a wall-clock cap "
        "alone is inconclusive); a second close() returns at once and changes nothing; signalingState / iceConnectionState / "
        "connectionState are 'closed'; every RTCDataChannel handed out is 'closed'; every received track ends for a consumer "
        "(recv() reaches MediaStreamError); no event fires after close() returned; after a 0.25 s grace no task whose coroutine "
        "lives in aiortc/aioice and no '*-decoder' thread created by the scenario is left. Distinct/non-trivial = distinct "
        "(configuration, mode, step) runs in which close hit a transport that was still checking/connecting, or a negotiation "
        "call was pending."
        " Strata: trickle-style signalling whose candidates come late or never, the remote side gone before ICE connects (ICE 'failed' before close), a remote SCTP ABORT followed by one more createDataChannel()."
        ' One case in five renegotiates on the established connection so that close() can fall into a description call in flight.')
ASSUMPTIONS = [
    "real aioice over local UDP and real time; steps are counted by wrapping asyncio.events.Handle._run, so the step at which close() fires varies slightly between runs (network timing)",
    "'ended' for a received track is what a consumer can observe: readyState == 'ended' or recv() raising MediaStreamError within a bounded number of frames",
    "exceptions inside the library's background tasks during teardown are diagnostics only, unless they lead to one of the listed violations",
]
DECIDING = ["close_runs", "state_checks", "leftover_checks"]

MODES = ["offerer", "answerer", "both", "twice", "remote-closed", "remote-blackholed", "after-channel-close"]


class Counter:
    """Step counter on asyncio.events.Handle._run (class attribute), active for one loop."""

    def __init__(self):
        self.n = 0
        self.fire_at = None
        self.action = None
        self.loop = None
        self._orig = None

    def install(self, loop):
        import asyncio.events as ev

        self.loop = loop
        self._orig = ev.Handle._run
        counter = self

        def _run(handle):
            if handle._loop is counter.loop:
                counter.n += 1
                if counter.fire_at is not None and counter.n >= counter.fire_at and counter.action is not None:
                    act, counter.action = counter.action, None
                    act()
            return counter._orig(handle)

        ev.Handle._run = _run

    def uninstall(self):
        import asyncio.events as ev

        if self._orig is not None:
            ev.Handle._run = self._orig


def await_chain(task):
    """Qualified names along the await chain of a pending task, innermost last."""
    names = []
    obj = task.get_coro() if hasattr(task, "get_coro") else None
    seen = 0
    while obj is not None and seen < 40:
        seen += 1
        code = getattr(obj, "cr_code", None) or getattr(obj, "gi_code", None)
        if code is not None:
            names.append(f"{code.co_filename.rsplit('/', 1)[-1]}:{code.co_qualname if hasattr(code, 'co_qualname') else code.co_name}")
        nxt = getattr(obj, "cr_await", None)
        if nxt is None:
            nxt = getattr(obj, "gi_yieldfrom", None)
        if nxt is None:
            break
        if isinstance(nxt, asyncio.Future):
            names.append("<future:" + type(nxt).__name__ + ">")
            if isinstance(nxt, asyncio.Task):
                obj = nxt.get_coro()
                continue
            break
        obj = nxt
    return names


class Tap:
    def __init__(self):
        self.events = []
        self.closed_at = {}

    def attach(self, owner, obj, label, names):
        for n in names:
            try:
                obj.on(n, lambda *a, n=n: self.events.append((time.monotonic(), owner, label, n)))
            except Exception:
                pass


def split_candidates(sdp):
    """-> (text without candidate / end-of-candidates lines, [(mid, candidate line)])"""
    keep, cands, mid, pending = [], [], None, []
    for line in sdp.splitlines(True):
        if line.startswith("m="):
            mid, pending = None, []
        if line.startswith("a=mid:"):
            mid = line[6:].strip()
            cands.extend((mid, c) for c in pending)
            pending = []
        if line.startswith("a=candidate:"):
            (cands.append((mid, line.strip())) if mid is not None else pending.append(line.strip()))
            continue
        if line.startswith("a=end-of-candidates"):
            continue
        keep.append(line)
    return "".join(keep), cands


async def negotiate_trickle(offerer, answerer, how, marks):
    """Trickle-style signalling: descriptions travel without candidates; the candidates follow 0.3 s later ('late') or the
    remote side never gets round to sending them ('never': ICE keeps waiting for remote candidates)."""
    from aiortc import RTCSessionDescription
    from aiortc.sdp import candidate_from_sdp

    o, a = offerer.pc, answerer.pc
    await o.setLocalDescription(await o.createOffer())
    off, c_off = split_candidates(o.localDescription.sdp)
    await a.setRemoteDescription(RTCSessionDescription(sdp=off, type="offer"))
    await a.setLocalDescription(await a.createAnswer())
    ans, c_ans = split_candidates(a.localDescription.sdp)
    await o.setRemoteDescription(RTCSessionDescription(sdp=ans, type="answer"))
    marks["waiting_for_candidates"] = True
    if how == "never":
        await asyncio.sleep(0.5)
        return
    await asyncio.sleep(0.3)
    for pc, cands in ((a, c_off), (o, c_ans)):
        for mid, line in cands:
            cand = candidate_from_sdp(line.split(":", 1)[1])
            cand.sdpMid = mid
            await pc.addIceCandidate(cand)
        await pc.addIceCandidate(None)
    marks["waiting_for_candidates"] = False


async def scenario(a, b, cfg, tap, marks):
    """negotiate -> connect -> exchange for a while. Exceptions end the scenario quietly (close() may have been injected)."""
    from vt.rigs.pc import negotiate

    for p in (a, b):
        tap.attach(p.name, p.pc, "pc", ["connectionstatechange", "iceconnectionstatechange", "signalingstatechange",
                                        "icegatheringstatechange", "track", "datachannel"])
        for ch in p.channels:
            tap.attach(p.name, ch, f"channel {ch.label}", ["open", "close", "message", "bufferedamountlow"])
        p.pc.on("datachannel", lambda ch, p=p: tap.attach(p.name, ch, f"remote channel {ch.label}", ["open", "close", "message"]))
        p.pc.on("track", lambda tr, p=p: tap.attach(p.name, tr, f"track {tr.kind}", ["ended"]))
    try:
        marks["negotiating"] = True
        if cfg.get("trickle"):
            await negotiate_trickle(a, b, cfg["trickle"], marks)
        else:
            await negotiate(a, b)
        marks["negotiating"] = False
        if cfg.get("ice_fails"):
            # the remote side goes away before connectivity is established: every check of A stays unanswered and its ICE
            # transports fail through connect() (STUN retry timers shortened by the caller, as the repository's tests do)
            await asyncio.wait_for(b.pc.close(), 20)
            t0 = time.monotonic()
            while time.monotonic() - t0 < 8.0 and a.pc.iceConnectionState not in ("failed", "closed"):
                await asyncio.sleep(0.02)
            marks["ice_failed"] = a.pc.iceConnectionState == "failed"
            await asyncio.sleep(0.1)
            return
        t0 = time.monotonic()
        while time.monotonic() - t0 < 3.0:
            if a.pc.connectionState == "connected" and b.pc.connectionState == "connected":
                break
            if "closed" in (a.pc.connectionState, b.pc.connectionState, a.pc.signalingState, b.pc.signalingState):
                break  # close() was injected: nothing more to wait for
            await asyncio.sleep(0.01)
        marks["connected"] = a.pc.connectionState == "connected" and b.pc.connectionState == "connected"
        for p in (a, b):
            for ch in p.channels:
                if ch.readyState == "open":
                    ch.send("hello")
        await asyncio.sleep(0.1)
        if cfg.get("renegotiate") and marks["connected"]:
            # a re-offer on the established connection: close() may now fall into a setRemote/LocalDescription that is in flight
            marks["negotiating"] = True
            marks["renegotiating"] = True
            (b if cfg["renegotiate"] == "answerer" else a).add_item(("t", "audio", "sendrecv", "addTransceiver-kind", None))
            if cfg["renegotiate"] == "answerer":
                await negotiate(b, a)
            else:
                await negotiate(a, b)
            marks["negotiating"] = False
            await asyncio.sleep(0.1)
        if cfg.get("sctp_aborted") and b.pc.sctp is not None and a.pc.sctp is not None:
            # the remote SCTP association is torn down (ABORT) while DTLS stays up; the application, unaware, creates one more channel
            await asyncio.wait_for(b.pc.sctp.stop(), 10)
            await asyncio.sleep(0.2)
            marks["sctp_aborted"] = a.pc.sctp.state == "closed"
            try:
                if a.pc.signalingState == "closed":
                    return  # close() was injected meanwhile: a channel created after close() is not this property's business
                ch = a.pc.createDataChannel("late")
                a.channels.append(ch)
                tap.attach(a.name, ch, "channel late", ["open", "close", "message", "bufferedamountlow"])
            except Exception as exc:
                marks["late_channel_error"] = repr(exc)[:100]
            await asyncio.sleep(0.1)
            return
        # the application closes one of its channels: the stream reset handshake is now in flight
        for p in (a, b):
            for ch in p.channels[:1]:
                if ch.readyState == "open":
                    ch.close()
                    marks["channel_close_step"] = marks["counter"].n if "counter" in marks else None
        await asyncio.sleep(0.15)
    except Exception as exc:
        marks["scenario_error"] = f"{type(exc).__name__}: {exc}"[:200]
    finally:
        marks["negotiating"] = False


async def drain_track(track, limit=2000):
    from aiortc.mediastreams import MediaStreamError

    for _ in range(limit):
        if track.readyState == "ended":
            return True
        try:
            await track.recv()
        except MediaStreamError:
            return True
    return track.readyState == "ended"


async def run_once(cfg, mode, fire_at, out, desc, counter):
    """One run. fire_at=None: baseline (close after the scenario). Returns number of steps of the scenario."""
    from vt.rigs.pc import Peer

    loop = asyncio.get_running_loop()
    created = []
    loop.set_task_factory(lambda lp, coro, **kw: _track_task(lp, coro, created, **kw))
    threads_before = set(threading.enumerate())
    a, b = Peer("A", cfg["offerer"]), Peer("B", cfg["answerer"])
    tap = Tap()
    marks = {"counter": counter}
    close_tasks = []
    closers = {"offerer": [a], "answerer": [b], "both": [a, b], "twice": [a], "remote-closed": [a], "remote-blackholed": [a],
               "after-channel-close": [a]}[mode]
    state_at_fire = {}

    def fire():
        state_at_fire.update(ice=[t.receiver.transport.transport.state for p in (a, b) for t in p.pc.getTransceivers()],
                             dtls=[t.receiver.transport.state for p in (a, b) for t in p.pc.getTransceivers()],
                             negotiating=marks.get("negotiating", False), signaling=(a.pc.signalingState, b.pc.signalingState))
        for p in closers:
            close_tasks.append((p, loop.create_task(p.pc.close())))
            if mode == "twice":
                close_tasks.append((p, loop.create_task(p.pc.close())))

    counter.n = 0
    counter.fire_at = fire_at
    counter.action = fire if fire_at is not None else None
    sc = loop.create_task(scenario(a, b, cfg, tap, marks))
    try:
        await asyncio.wait_for(asyncio.shield(sc), 30)
    except Exception:
        pass
    steps = counter.n
    if marks.get("ice_failed"):
        out.counters["runs_with_ice_failed_before_close"] += 1
    if marks.get("sctp_aborted"):
        out.counters["runs_with_sctp_aborted_before_close"] += 1
    if marks.get("renegotiating") and state_at_fire.get("negotiating"):
        out.counters["runs_closed_during_renegotiation"] += 1
    if marks.get("waiting_for_candidates"):
        out.counters["runs_closed_while_waiting_for_candidates"] += 1
    if fire_at is None and mode == "after-channel-close":
        steps = marks.get("channel_close_step") or steps  # baseline reports where channel.close() happened
    if not close_tasks:
        # close() was not reached by the step trigger (or baseline): apply the mode now
        if mode == "remote-closed":
            await asyncio.wait_for(b.pc.close(), 20)
            await asyncio.sleep(0.05)
        elif mode == "remote-blackholed":
            for t in b.pc.getTransceivers():
                _blackhole(t.receiver.transport.transport)
            if b.pc.sctp is not None:
                _blackhole(b.pc.sctp.transport.transport)
            await asyncio.sleep(0.05)
        counter.action = None
        fire()
    out.counters["close_runs"] += 1
    # (1) completion
    hb = {"ticks": 0}

    async def heartbeat():
        while True:
            await asyncio.sleep(0.05)
            hb["ticks"] += 1

    hbt = loop.create_task(heartbeat())
    verdict_ok = True
    t0 = time.monotonic()
    for p, ct in close_tasks:
        while not ct.done() and hb["ticks"] < 400 and time.monotonic() - t0 < 40:
            await asyncio.sleep(0.05)
        if not ct.done():
            chain = await_chain(ct)
            waits_on_timer = any(x for x in chain if "sleep" in x or "wait_for" in x or "sock_" in x)
            if hb["ticks"] >= 400 and not waits_on_timer:
                out.fail("close-hangs@" + (next((c for c in reversed(chain) if c.endswith(".py:" + c.split(":")[-1]) or ".py:" in c), "?")),
                         f"{p.name}.close() ({mode}, fired before step {fire_at}) still pending after {hb['ticks']} heartbeat ticks of "
                         f"the running loop; await chain: {' -> '.join(chain)[:600]}", desc | {"state_at_close": state_at_fire})
            else:
                out.inconclusive = "close() pending at the cap but the loop was starved or it waits on a timer/socket"
            verdict_ok = False
            ct.cancel()
        elif ct.exception() is not None and not ct.cancelled():
            exc = ct.exception()
            out.fail("close-raises", f"{p.name}.close() ({mode}) raised {type(exc).__name__}: {exc}", desc | {"state_at_close": state_at_fire}, exc)
            verdict_ok = False
    hbt.cancel()
    hung = set()
    returned_at = time.monotonic()
    if verdict_ok:
        closed = [p for p, _ in close_tasks]
        # (2) idempotence
        for p in dict.fromkeys(closed):
            snap = (p.pc.signalingState, p.pc.iceConnectionState, p.pc.connectionState)
            try:
                await asyncio.wait_for(p.pc.close(), 5)
            except asyncio.TimeoutError:
                hung.add(p.name)
                out.fail("second-close-hangs", f"{p.name}: close() on a closed connection did not return within 5 s ({mode})", desc)
            except Exception as exc:
                out.fail("second-close-raises", f"{p.name}: second close() raised {type(exc).__name__}: {exc}", desc, exc)
            if (p.pc.signalingState, p.pc.iceConnectionState, p.pc.connectionState) != snap:
                out.fail("second-close-changes-state", f"{p.name}: states changed by the second close()", desc)
        # (3) states (4) channels and tracks
        for p in dict.fromkeys(closed):
            out.counters["state_checks"] += 1
            st = {"signalingState": p.pc.signalingState, "iceConnectionState": p.pc.iceConnectionState, "connectionState": p.pc.connectionState}
            badst = {k: v for k, v in st.items() if v != "closed"}
            if badst:
                out.fail("state-not-closed:" + sorted(badst)[0], f"{p.name} after close() ({mode}, step {fire_at}): {badst}",
                         desc | {"state_at_close": state_at_fire})
            for ch in p.channels + p.remote_channels:
                if ch.readyState != "closed":
                    out.fail("channel-not-closed", f"{p.name} after close() ({mode}, step {fire_at}): channel {ch.label!r} id={ch.id} is "
                             f"{ch.readyState}", desc | {"state_at_close": state_at_fire})
        await asyncio.sleep(0.05)
        late = [e for e in tap.events if e[0] > returned_at and any(e[1] == p.name for p in closed)]
        if late:
            out.fail("event-after-close", f"events fired after close() returned ({mode}, step {fire_at}): {[(e[1], e[2], e[3]) for e in late[:5]]}", desc)
        for p in dict.fromkeys(closed):
            for tr in p.remote_tracks:
                try:
                    ended = await asyncio.wait_for(drain_track(tr), 3.0)
                except asyncio.TimeoutError:
                    ended = False
                out.counters["track_checks"] += 1
                if not ended:
                    out.fail("track-never-ends", f"{p.name} after close() ({mode}, step {fire_at}): received {tr.kind} track is "
                             f"{tr.readyState} and recv() never reaches its end (dtls states at close: {state_at_fire.get('dtls')})",
                             desc | {"state_at_close": state_at_fire})
    # close the other side too, then (6) leftovers
    for p in (a, b):
        if p.name not in hung:
            try:
                await asyncio.wait_for(p.pc.close(), 8)
            except Exception:
                pass
        for tr in p.tracks:
            tr.stop()
    sc.cancel()
    await asyncio.sleep(0.25)
    out.counters["leftover_checks"] += 1
    me = asyncio.current_task()
    left = []
    for t in created:
        if t.done() or t is me or t is sc:
            continue
        code = getattr(t.get_coro(), "cr_code", None)
        fn = code.co_filename if code is not None else ""
        if "/aiortc/" in fn or "/aioice/" in fn:
            left.append(f"{fn.rsplit('/', 1)[-1]}:{code.co_name} awaiting {await_chain(t)[-1:]}")
    if left and verdict_ok:
        out.fail("task-left-running:" + left[0].split(" ")[0], f"after both peers were closed ({mode}, step {fire_at}) and a 0.25 s grace, tasks are "
                 f"still pending: {left[:4]}", desc | {"state_at_close": state_at_fire})
    th = [t.name for t in threading.enumerate() if t not in threads_before and t.name.endswith("-decoder") and t.is_alive()]
    if th and verdict_ok:
        out.fail("decoder-thread-left-running", f"threads {th} still alive after both peers were closed ({mode}, step {fire_at})", desc)
    nontrivial = bool(state_at_fire.get("negotiating")) or any(s in ("checking", "new") for s in state_at_fire.get("ice", [])) or \
        any(s in ("connecting",) for s in state_at_fire.get("dtls", []))
    return steps, nontrivial


def _track_task(loop, coro, created, **kw):
    t = asyncio.Task(coro, loop=loop, **kw)
    created.append(t)
    return t


def _blackhole(ice):
    async def drop(data):
        return None
    try:
        ice._send = drop
    except Exception:
        pass


def c19_config(rng):
    from vt.rigs.pc import gen_config

    cfg = gen_config(rng)
    cfg["followup"] = None
    # make sure there is something to tear down: at least one track-bearing transceiver or a channel on the offerer
    if not any(i[0] == "t" and i[3] != "addTransceiver-kind" for i in cfg["offerer"]["items"]) and rng.random() < 0.7:
        cfg["offerer"]["items"].append(("t", rng.choice(["audio", "video"]), "sendrecv", "addTrack", None))
    if not any(i[0] == "dc" for i in cfg["offerer"]["items"]) and rng.random() < 0.6:
        cfg["offerer"]["items"].append(("dc", "chat", None, False))
    for s in ("offerer", "answerer"):
        cfg[s]["items"] = [i for i in cfg[s]["items"] if not (i[0] == "dc" and i[3])][:4]  # no out-of-band channels here
    if not cfg["offerer"]["items"]:
        cfg["offerer"]["items"] = [("dc", "chat", None, False)]
    return cfg


def plan(tier):
    if tier == "thorough":
        return dict(cases=320, shards=16, timeout=6000, min_nontrivial=200, case_alarm=1500)
    return dict(cases=80, shards=16, timeout=560, min_nontrivial=60, case_alarm=400)


def run_case(index, rng, tier):
    from vt.props.c03 import restrict_answerer
    from vt.rigs.pc import config_key, ensure_host_addresses, run_async

    ensure_host_addresses()
    out = Batch("C19", "c19", checked_counter="close_runs")
    cfg = restrict_answerer(c19_config(rng))
    mode = MODES[index % len(MODES)]
    if index % 5 == 3:
        cfg["trickle"] = "never" if index % 10 == 3 else "late"
    elif index % 10 in (1, 7):
        cfg["renegotiate"] = "offerer" if index % 10 == 1 else "answerer"
    elif index % 10 == 4:
        cfg["sctp_aborted"] = True
        if not any(i[0] == "dc" for i in cfg["offerer"]["items"]):
            cfg["offerer"]["items"].append(("dc", "chat", None, False))
    elif index % 10 == 6:
        cfg["ice_fails"] = True
        mode = "offerer" if index % 20 == 6 else "twice"
    key = config_key(cfg) + (cfg.get("trickle"), cfg.get("ice_fails"), cfg.get("sctp_aborted"), cfg.get("renegotiate"))
    desc = {"config": repr(key)[:600], "mode": mode, "trickle": cfg.get("trickle"), "ice_fails": cfg.get("ice_fails"), "sctp_aborted": cfg.get("sctp_aborted"), "renegotiate": cfg.get("renegotiate")}
    counter = Counter()

    def one(fire_at):
        import aioice.stun

        saved = (aioice.stun.RETRY_MAX, aioice.stun.RETRY_RTO)
        if cfg.get("ice_fails"):
            aioice.stun.RETRY_MAX, aioice.stun.RETRY_RTO = 1, 0.1
        try:
            return _one(fire_at)
        finally:
            aioice.stun.RETRY_MAX, aioice.stun.RETRY_RTO = saved

    def _one(fire_at):
        async def go():
            counter.install(asyncio.get_running_loop())
            try:
                return await run_once(cfg, mode, fire_at, out, desc | {"fire_before_step": fire_at}, counter)
            finally:
                counter.uninstall()
        try:
            return run_async(go(), timeout=120)
        except (asyncio.TimeoutError, asyncio.CancelledError):
            if not out.violations:
                out.inconclusive = "run exceeded 120 s"
            return None
        finally:
            counter.uninstall()

    base = one(None)
    if base is None:
        return out.result()
    n_steps = base[0]
    out.counters["baseline_steps"] += n_steps
    if mode == "after-channel-close":
        # close() within a few loop steps after channel.close(): the peer's reset response has not arrived yet
        ks = [n_steps + d for d in ((0, 1, 2, 3, 4, 6, 8, 12, 16, 24) if tier == "quick" else range(0, 60))]
    elif tier == "thorough" and index % 13 == 0:  # 13 is coprime to the 16 shards (index % 16 = shard): the long cases spread evenly
        ks = list(range(1, n_steps + 1, max(1, n_steps // 300)))  # every step up to 300 steps, else an even stride: at most ~300-600 runs
    else:
        m = 10 if tier == "quick" else 16
        ks = sorted({max(1, int(n_steps * (i + rng.random()) / m)) for i in range(m)})
    for k in ks:
        r = one(k)
        if r is None:
            break
        if r[1]:
            out.distinct((key, mode, k))
        if len(out.violations) >= 6:
            break
    out.counters["steps_sampled"] += len(ks)
    out.sample(desc | {"baseline_steps": n_steps, "fire_steps": ks[:12]})
    res = out.result()
    res["evals"] = out.counters.get("close_runs", 0)
    return res
