"""C17 - behaviour does not depend on sequence-number origins, even across wraparound (metamorphic, DESIGN 3/C17).

Relation: run the same program under the same fault decisions twice - origins small, and origins placed so that
the wrap happens inside the run - and compare the observable traces.  Plus the RFC 1982 properties of the
serial-number helpers against their definition.
"""
import random
import struct

from vt.core.batch import Batch

ID = "C17"
LEVEL = "exploration"
RULE = ("SCTP cases: a generated data-channel program (as C01/C02/C06, reliable and mixed reliability, negotiated channels so that "
        "stream sequence numbers can be preset, closes at the end) is run twice on the R-SCTP rig with the same seed, hence the "
        "same fault decisions per datagram ordinal: once with TSN origins 1000/2000 and stream sequence origin 0, once with TSN "
        "origins 2^32-k (k in 1..400, both endpoints independently) and stream sequence origin 65536-j; the delivery traces "
        "(virtual time, endpoint, channel, type, length, digest), channel events, drain outcomes and monitor verdicts must be "
        "identical. RTP cases (pure): the same arrival pattern is fed to JitterBuffer, NackGenerator and StreamStatistics with "
        "sequence origin 1000 / timestamp origin 10000 and with origins 65536-k / 2^32-k; released frames (arrival ids), PLI "
        "flags, missing sets and report figures (un-shifted) must be identical. Serial cases: uint16_gt/gte against the RFC 1982 "
        "definition for whole rows a x all 65536 b (all 2^32 pairs in the thorough tier), uint16_add, uint32_gt/gte/add and "
        "tsn_plus_one/minus_one on boundary-biased and random pairs. Non-trivial = the wrap was crossed while >=1 TSN was out "
        "of order / while the jitter buffer held packets; distinct by program+origin fingerprint.")
ASSUMPTIONS = [
    "stream sequence origins are preset from outside on negotiated channels right after creation (equivalent to a long-lived channel); if the private attributes are missing that stratum is inconclusive",
    "fault decisions are indexed by (direction, datagram ordinal), never by content, so both runs see the same faults as long as they behave the same",
]
DECIDING = ["paired_runs", "serial_pairs_checked", "rtp_paired_runs"]
EXPLANATION = "exhaustive (thorough tier only): all 2^32 pairs (a, b) of 16-bit serial numbers for uint16_gt and uint16_gte"


# ------------------------------------------------------------------------------------------------ serial arithmetic


def case_serial16(rng, out, rows):
    from aiortc import utils

    gt, gte, add = utils.uint16_gt, utils.uint16_gte, utils.uint16_add
    R = range(65536)
    # template for a = 0: spec(0, b) = 0 < (0 - b) mod 2^16 < 2^15
    for a in rows:
        try:
            row_gt = [gt(a, b) for b in R]
            row_gte = [gte(a, b) for b in R]
        except Exception as exc:
            out.fail("serial-raises", f"{type(exc).__name__}: {exc} for a={a}", {"a": a}, exc)
            continue
        out.counters["serial_pairs_checked"] += 2 * 65536
        for b in R if False else ():
            pass
        bad = None
        for b in R:
            d = (a - b) & 0xFFFF
            if d == 0x8000:
                # exactly half the space apart: the statement only asks for antisymmetry
                if row_gt[b] and gt(b, a):
                    bad = ("antisymmetry", b)
                    break
                continue
            want = 0 < d < 0x8000
            if bool(row_gt[b]) != want:
                bad = ("gt", b)
                break
            if bool(row_gte[b]) != (want or d == 0):
                bad = ("gte", b)
                break
        if bad:
            out.fail("uint16-" + bad[0], f"uint16 {bad[0]} wrong for a={a}, b={bad[1]}: gt={row_gt[bad[1]]} gte={row_gte[bad[1]]}", {"a": a, "b": bad[1]})
        for d in (0, 1, 2, 0x7FFF, 0x8000, 0xFFFF, -1, -2, -128, -0x8000, 65536, rng.randrange(-70000, 70000)):
            if add(a, d) != (a + d) % 65536:
                out.fail("uint16-add", f"uint16_add({a}, {d}) = {add(a, d)}", {"a": a, "d": d})
            elif 0 < d < 0x8000 and not gt(add(a, d), a):
                out.fail("uint16-add-gt", f"uint16_gt(uint16_add({a},{d}), {a}) is False", {"a": a, "d": d})
        out.distinct(("s16", a))
    out.sample({"kind": "serial16", "rows": [rows[0], rows[-1]], "n_rows": len(rows)})


def case_serial32(rng, out):
    from aiortc import utils
    import aiortc.rtcsctptransport as st

    gt, gte, add = utils.uint32_gt, utils.uint32_gte, utils.uint32_add
    B = [0, 1, 2, 0x7FFFFFFE, 0x7FFFFFFF, 0x80000000, 0x80000001, 0xFFFFFFFE, 0xFFFFFFFF]
    M = 1 << 32
    for _ in range(40000):
        a = rng.choice(B) if rng.random() < 0.4 else rng.randrange(M)
        r = rng.random()
        if r < 0.5:
            b = (a + rng.choice([0, 1, -1, 2, 0x7FFFFFFF, 0x80000000, 0x80000001, -0x7FFFFFFF, 100, -100])) % M
        else:
            b = rng.randrange(M)
        d = (a - b) % M
        try:
            g, ge, g2 = gt(a, b), gte(a, b), gt(b, a)
        except Exception as exc:
            out.fail("serial-raises", f"{type(exc).__name__}: {exc}", {"a": a, "b": b}, exc)
            continue
        out.counters["serial_pairs_checked"] += 1
        if d == 0x80000000:
            if g and g2:
                out.fail("uint32-antisymmetry", f"a={a} b={b}: both greater", {"a": a, "b": b})
            continue
        want = 0 < d < 0x80000000
        if bool(g) != want or bool(ge) != (want or d == 0) or (g and g2):
            out.fail("uint32-gt", f"uint32_gt({a},{b})={g} gte={ge}, RFC 1982 says gt={want}", {"a": a, "b": b})
        k = rng.choice([1, 2, 0x7FFFFFFF, -1, rng.randrange(-M, M)])
        if add(a, k) != (a + k) % M:
            out.fail("uint32-add", f"uint32_add({a},{k})={add(a, k)}", {"a": a, "k": k})
        if st.tsn_plus_one(a) != (a + 1) % M or st.tsn_minus_one(a) != (a - 1) % M:
            out.fail("tsn-plus-minus-one", f"tsn_plus_one/minus_one wrong at {a}", {"a": a})
        out.distinct(("s32", a in B, d in (1, M - 1, 0x7FFFFFFF, 0x80000001)))
    out.sample({"kind": "serial32"})


# ------------------------------------------------------------------------------------------------ SCTP metamorphic


def sctp_program(rng):
    """A C01/C06-type program restricted to negotiated channels (stream sequence origins can be preset) + final closes."""
    from vt.rigs.sctp_workload import gen_program

    mode = rng.choice(["reliable", "reliable", "mixed"])
    prog = gen_program(rng, mode=mode, heavy=rng.random() < 0.5)
    for k, c in enumerate(prog["chans"]):
        c["negotiated"] = 2 * k + 100
        c["t"] = -1.0
    # closes (stream resets: their request sequence numbers start at the TSN origin) after the post-heal traffic
    t = prog["heal"] + 3.2
    closes = []
    for k in rng.sample(range(len(prog["chans"])), rng.randint(0, len(prog["chans"]))):
        t += rng.choice([0.0, 0.3, 1.0])
        closes.append((round(t, 3), rng.choice("AB"), k))
    prog["closes"] = closes
    return prog, mode


def run_sctp_once(seed, prog, origins, sseq_origin, out, desc):
    from vt.rigs.sctp_workload import run_program

    rng = random.Random(seed)

    def preset(rig):
        if not sseq_origin:
            return True
        ok = True
        for ep in (rig.A, rig.B):
            s = ep.sctp
            if not hasattr(s, "_outbound_stream_seq") or not hasattr(s, "_get_inbound_stream"):
                ok = False
                continue
            for c in prog["chans"]:
                sid = c["negotiated"]
                s._outbound_stream_seq[sid] = sseq_origin
                inbound = s._get_inbound_stream(sid)
                if not hasattr(inbound, "sequence_number"):
                    ok = False
                else:
                    inbound.sequence_number = sseq_origin
        return ok

    r = run_program(prog, rng, origins=origins, pre_hook=preset, record_wire=False)
    return r


def trace_of(r):
    cats = sorted({(v["cat"], str(v["key"])) for v in r["violations"]})
    return {"trace": r["trace"], "drain": (r["drain"], r.get("drain2")), "states": r["states"], "violations": cats,
            "link": r["link"]}


def case_sctp(rng, out, index):
    prog, mode = sctp_program(rng)
    seed = rng.getrandbits(48)
    k1, k2 = rng.randint(1, 400), rng.randint(1, 400)
    j = rng.choice([0, 1, 2, 5, 30, 200])
    small = {"A": {"tag": 11, "tsn": 1000}, "B": {"tag": 22, "tsn": 2000}}
    big = {"A": {"tag": 11, "tsn": (1 << 32) - k1}, "B": {"tag": 22, "tsn": (1 << 32) - k2}}
    desc = {"kind": "sctp", "mode": mode, "tsn_origins": [big["A"]["tsn"], big["B"]["tsn"]], "sseq_origin": (65536 - j) & 0xFFFF if j else 0,
            "heal": prog["heal"], "chans": len(prog["chans"]), "sends": len(prog["sends"])}
    try:
        r1 = run_sctp_once(seed, prog, small, 0, out, desc)
        r2 = run_sctp_once(seed, prog, big, (65536 - j) & 0xFFFF if j else 0, out, desc)
    except Exception as exc:
        out.fail("sctp-run-raises", f"{type(exc).__name__}: {exc}", desc, exc)
        return
    out.counters["paired_runs"] += 1
    if r2.get("pre_hook_ok") is False:
        out.counters["sseq_preset_unavailable"] += 1
    t1, t2 = trace_of(r1), trace_of(r2)
    if t1 != t2:
        what = []
        if t1["trace"] != t2["trace"]:
            n = next((i for i, (a, b) in enumerate(zip(t1["trace"], t2["trace"])) if a != b), min(len(t1["trace"]), len(t2["trace"])))
            what.append(f"delivery traces differ at event {n} of {len(t1['trace'])}/{len(t2['trace'])}: "
                        f"{t1['trace'][n] if n < len(t1['trace']) else None} vs {t2['trace'][n] if n < len(t2['trace']) else None}")
        for k in ("drain", "states", "violations", "link"):
            if t1[k] != t2[k]:
                what.append(f"{k}: {t1[k]} vs {t2[k]}")
        out.fail("sctp-origin-dependent", "same program, same fault decisions, different sequence-number origins: " + "; ".join(what)[:600],
                 desc | {"diag_wrap_run": str(r2.get("diag"))[:600]})
    w = r2["wire"]
    if w.get("rx_data_out_of_order", 0) or w.get("tx_sack_with_gaps", 0):
        out.distinct(("sctp", mode, k1, k2, j, r2["fingerprint"]))
    if out.want_sample():
        out.sample(desc | {"messages": len(t2["trace"]), "drain": t2["drain"]})


# ------------------------------------------------------------------------------------------------ RTP metamorphic (pure)


def rtp_pattern(rng):
    """Arrival pattern in origin-free terms: (packet index, frame index) per arrival."""
    n_frames = rng.randint(20, 200)
    pk = []
    a = 0
    for f in range(n_frames):
        for _ in range(rng.randint(1, 6)):
            pk.append((a, f))
            a += 1
    mode = rng.choice(["inorder", "disp", "loss", "dup", "mixed", "mixed"])
    arr = list(pk)
    if mode in ("disp", "mixed"):
        d = rng.choice([2, 8, 30, 150])
        arr = [arr[i] for _, i in sorted((i + rng.random() * d, i) for i in range(len(arr)))]
    if mode in ("loss", "mixed"):
        p = rng.choice([0.02, 0.1, 0.3])
        arr = [x for x in arr if rng.random() > p]
    if mode in ("dup", "mixed"):
        for _ in range(rng.randint(1, 10)):
            i = rng.randrange(len(arr))
            arr.insert(min(len(arr), i + rng.choice([0, 1, 5, 120])), arr[i])
    return arr, mode


def run_rtp_once(arr, seq0, ts0, capacity, prefetch, is_video, times):
    import aiortc.rtcrtpreceiver as rr
    from aiortc.jitterbuffer import JitterBuffer
    from aiortc.rtp import RtpPacket

    class Clock:
        t = 0.0

        def time(self):
            return self.t

    clock = Clock()
    saved = rr.time
    rr.time = clock
    try:
        jb = JitterBuffer(capacity=capacity, prefetch=prefetch, is_video=is_video)
        nack = rr.NackGenerator()
        stats = rr.StreamStatistics(90000)
        trace = []
        for i, (a, f) in enumerate(arr):
            clock.t = times[i]
            p = RtpPacket(payload_type=96, sequence_number=(seq0 + a) & 0xFFFF, timestamp=(ts0 + 3000 * f) & 0xFFFFFFFF, ssrc=5)
            p._data = struct.pack("!L", i)
            missed = nack.add(p)
            stats.add(p)
            pli, frame = jb.add(p)
            rec = [bool(missed), sorted(((s - seq0) & 0xFFFF) for s in nack.missing), bool(pli),
                   None if frame is None else (frame.data, (frame.timestamp - ts0) & 0xFFFFFFFF),
                   stats.packets_received, stats.packets_lost, stats.jitter, stats.packets_expected]
            if i % 50 == 49:
                rec.append(stats.fraction_lost)
            trace.append(rec)
        return trace
    finally:
        rr.time = saved


def case_rtp(rng, out):
    for _ in range(12):
        arr, mode = rtp_pattern(rng)
        capacity = rng.choice([16, 64, 128])
        prefetch = rng.choice([0, 0, 4])
        is_video = rng.random() < 0.7
        t = 1000.0
        times = []
        for _a in arr:
            t += rng.choice([0.001, 0.01, 0.033])
            times.append(t)
        k = rng.randint(1, 300)
        kt = rng.randint(0, 40)
        desc = {"kind": "rtp", "mode": mode, "capacity": capacity, "prefetch": prefetch, "video": is_video,
                "seq_origin": 65536 - k, "ts_origin": (1 << 32) - kt * 3000 - 1, "arrivals": len(arr)}
        try:
            t1 = run_rtp_once(arr, 1000, 10000, capacity, prefetch, is_video, times)
            t2 = run_rtp_once(arr, 65536 - k, (1 << 32) - kt * 3000 - 1, capacity, prefetch, is_video, times)
        except Exception as exc:
            out.fail("rtp-run-raises", f"{type(exc).__name__}: {exc}", desc, exc)
            continue
        out.counters["rtp_paired_runs"] += 1
        if t1 != t2:
            n = next(i for i, (a, b) in enumerate(zip(t1, t2)) if a != b)
            names = ["nack.add()", "nack.missing", "pli", "frame", "packets_received", "packets_lost", "jitter", "packets_expected", "fraction_lost"]
            which = [names[x] for x, (a, b) in enumerate(zip(t1[n], t2[n])) if a != b]
            out.fail("rtp-origin-dependent:" + which[0].split(".")[0].split("(")[0].replace(" ", "-"),
                     f"same arrival pattern, origins 1000/10000 vs {desc['seq_origin']}/{desc['ts_origin']}: at arrival {n} "
                     f"(packet #{arr[n][0]}) {which} differ: {[t1[n][names.index(w)] for w in which][:2]!r:.200} vs "
                     f"{[t2[n][names.index(w)] for w in which][:2]!r:.200}", desc | {"at": n})
        if any(a > k for a, _ in arr[:]) and mode != "inorder":
            out.distinct(("rtp", mode, capacity, prefetch, is_video, k // 50, kt // 10))
        if out.want_sample():
            out.sample(desc)


def plan(tier):
    if tier == "thorough":
        # 4096 serial16 cases x 16 rows = all 65536 rows
        return dict(cases=4096 + 24000, shards=16, timeout=3400, min_nontrivial=3000, case_alarm=20, case_steps=20_000_000)
    return dict(cases=960, shards=16, timeout=400, min_nontrivial=200, case_alarm=10, case_steps=20_000_000)


def run_case(index, rng, tier):
    out = Batch("C17", "c17", checked_counter="paired_runs")
    n16 = 4096 if tier == "thorough" else 32
    if index < n16:
        if tier == "thorough":
            rows = list(range(index * 16, index * 16 + 16))
        else:
            rows = sorted({0, 1, 0x7FFF, 0x8000, 0x8001, 0xFFFE, 0xFFFF, index, 65535 - index} | {rng.randrange(65536) for _ in range(4)})
        case_serial16(rng, out, rows)
        out.counters["kind_serial16"] += 1
    elif index % 8 == 0:
        case_serial32(rng, out)
        out.counters["kind_serial32"] += 1
    elif index % 8 in (1, 2):
        case_rtp(rng, out)
        out.counters["kind_rtp"] += 1
    else:
        case_sctp(rng, out, index)
        out.counters["kind_sctp"] += 1
    res = out.result()
    res["evals"] = out.counters.get("paired_runs", 0) + out.counters.get("rtp_paired_runs", 0) + out.counters.get("serial_pairs_checked", 0)
    return res
