"""C10 - the jitter buffer releases only whole, correctly ordered frames and stays bounded (Pure, DESIGN 3/C10).

The real JitterBuffer is fed generated arrival histories.  Every packet carries a unique 4-byte arrival id as its
depayloaded data, so a released frame names exactly the arrivals it was built from.  Oracles are evaluated after
every add(): frame integrity, no reuse / ordering (while no arrival was >= 100 positions late), occupancy,
never raises, PLI whenever held packets were thrown away (video), and completeness for benign histories.
"""
import itertools
import struct

from vt.core.batch import Batch

ID = "C10"
LEVEL = "exploration"
RULE = ("Each case = a batch of generated arrival histories (5-60 frames of 1-12 packets with distinct consecutive RTP "
        "timestamps, optionally crossing the 32-bit timestamp wrap; first sequence number anywhere with a bias to "
        "65536-300..65535) perturbed by bounded or unbounded displacement, duplication, single/burst/whole-frame loss, forward "
        "jumps (>= capacity, >= 2^15), backward jumps (< 100, >= 100) and restarts; capacities 4..128 x prefetch 0..4 x "
        "audio/video. After every add(): each released frame is the in-order concatenation of arrivals with consecutive "
        "sequence numbers and the frame's timestamp; while no arrival was >= 100 positions behind the highest sequence number "
        "seen, no packet is used twice and frames come out in increasing serial order; ring occupancy <= capacity; add() "
        "never raises; in video mode packets dropped from the ring without being released imply pli_flag. Benign histories "
        "(no loss/jump, displacement and prefetch window inside the capacity, followed by in-order traffic) must release every "
        "generated frame exactly once. Enumeration cases run all arrival permutations of 5 (quick) / 6 (thorough) packets "
        "with <= 1 duplicate at capacity 4, prefetch 0/1. Distinct/non-trivial = distinct (capacity, prefetch, mode, feature "
        "vector) histories that released >= 1 frame."
        " Streams may contain padding-only packets (padding bit, no payload), which are the only legitimate gaps in a frame's data."
        ' In complete, slightly displaced streams add() must release a frame whenever the stored arrival leaves one outside the trailing prefetch window whole in the buffer.')
ASSUMPTIONS = [
    "'n positions late' is measured against the highest sequence number seen so far (serial arithmetic); after such an arrival the no-reuse / ordering clauses are not evaluated for the rest of that history, exactly as the statement allows",
    "ring contents are read from the private attribute _packets for the PLI and occupancy clauses; if it is missing these sub-checks are counted inconclusive",
]
DECIDING = ["adds_checked", "frames_checked", "pli_obligations", "completeness_checks"]
EXPLANATION = "exhaustive only for the sub-space: capacity 4, prefetch 0/1, all arrival permutations of 5 or 6 packets in fixed frame structures with at most one duplicate"

MISSING = object()


class Pk:
    __slots__ = ("abs", "seq", "ts", "frame", "pad")

    def __init__(self, abs_, seq, ts, frame, pad=False):
        self.abs, self.seq, self.ts, self.frame = abs_, seq, ts, frame
        self.pad = pad  # padding-only packet: padding bit set, no payload (it contributes nothing to the frame's data)


def serial_lt16(a, b):
    return a != b and ((b - a) & 0xFFFF) < 0x8000


class Monitor:
    def __init__(self, jb, is_video, out, desc):
        self.jb = jb
        self.is_video = is_video
        self.out = out
        self.desc = desc
        self.arrivals = []  # arrival id -> Pk
        self.highest = None
        self.late100 = False
        self.used = set()
        self.last_frame_seq = None
        self.released_frames = []  # frame index list per released frame
        self.released_pk = collections_counter()
        self.ring_ok = getattr(jb, "_packets", MISSING) is not MISSING
        self.pad_by_seq = {}
        self.expect_release = False

    def ring(self):
        ring = getattr(self.jb, "_packets", MISSING)
        if ring is MISSING:
            return None
        # by sequence number: a slot overwritten by another arrival with the same number is a replacement, not a discard
        return {p.sequence_number for p in ring if p is not None}

    def add(self, pk):
        from aiortc.rtp import RtpPacket

        out = self.out
        aid = len(self.arrivals)
        self.arrivals.append(pk)
        if self.highest is None:
            self.highest = pk.seq
        elif serial_lt16(self.highest, pk.seq):
            self.highest = pk.seq
        elif ((self.highest - pk.seq) & 0xFFFF) >= 100:
            self.late100 = True
        packet = RtpPacket(payload_type=96, sequence_number=pk.seq, timestamp=pk.ts, ssrc=1234)
        packet._data = struct.pack("!L", aid)
        if pk.pad:
            packet.padding_size = 1 + aid % 200
            packet.payload = b""
            packet._data = b""
            self.pad_by_seq.setdefault(pk.seq, []).append(pk)
            out.counters["padding_only_arrivals"] += 1
        packet._vt_abs = pk.abs
        before = self.ring() if self.ring_ok else None
        try:
            pli, frame = self.jb.add(packet)
        except Exception as exc:
            out.fail("add-raises", f"{type(exc).__name__}: {exc} on arrival #{aid} seq={pk.seq}", self.desc, exc)
            return "raised"
        out.counters["adds_checked"] += 1
        released = set()
        if frame is not None:
            self.check_frame(frame, aid)
            released = self.last_released_seqs
        elif self.expect_release and self.ring_ok and self.jb._origin is not None and self.jb._packets[pk.seq % self.jb.capacity] is packet:
            # (only when this arrival was stored: an ignored late duplicate triggers no scan, the backlog comes out with the next one)
            # complete, slightly displaced stream: a frame outside the trailing prefetch window that is whole in the buffer and
            # followed by the start of enough later frames must come out now - if the stream ended here it never would
            changes, ts, n = 0, None, 0
            cap = self.jb.capacity
            for k in range(cap):
                q = self.jb._packets[(self.jb._origin + k) % cap]
                if q is None:
                    break
                if ts is not None and q.timestamp != ts:
                    changes += 1
                ts = q.timestamp
                n += 1
            out.counters["release_obligations_checked"] += 1
            if changes >= max(self.jb._prefetch, 1):
                out.fail("release-missed", f"arrival #{aid} seq={pk.seq}: {n} consecutive packets from the origin span {changes + 1} timestamps "
                         f"(prefetch {self.jb._prefetch}), yet add() released nothing", self.desc)
        if before is not None:
            after = self.ring()
            if len(after) > self.jb.capacity or sum(1 for p in self.jb._packets if p is not None) > self.jb.capacity \
                    or len(self.jb._packets) > self.jb.capacity:
                out.fail("over-capacity", f"{len(after)} packets held, capacity {self.jb.capacity}", self.desc)
            thrown = before - after - released
            if self.is_video and thrown:
                out.counters["pli_obligations"] += 1
                if not pli:
                    out.fail("no-pli-after-discard", f"arrival #{aid} seq={pk.seq}: {len(thrown)} held packet(s) were dropped "
                             f"without being released and pli_flag is {pli!r}", self.desc)
            if not self.is_video and pli:
                out.fail("pli-in-audio-mode", "pli_flag set by an audio buffer", self.desc)
        else:
            out.counters["ring_unreadable"] += 1
        return "ok"

    def check_frame(self, frame, aid):
        out = self.out
        out.counters["frames_checked"] += 1
        data = frame.data
        self.last_released_seqs = set()
        if not data and self.pad_by_seq:
            # a frame made of padding-only packets: which ones cannot be told from the data
            cands = {q.seq for lst in self.pad_by_seq.values() for q in lst if q.ts == frame.timestamp}
            if not cands:
                out.fail("frame-data-not-whole-packets", f"empty frame (timestamp {frame.timestamp}) after arrival #{aid}", self.desc)
            self.last_released_seqs = cands
            out.counters["padding_only_frames"] += 1
            return set()
        if len(data) % 4 or not data:
            out.fail("frame-data-not-whole-packets", f"frame data of {len(data)} bytes after arrival #{aid}", self.desc)
            return set()
        ids = [struct.unpack_from("!L", data, i)[0] for i in range(0, len(data), 4)]
        if any(i >= len(self.arrivals) for i in ids):
            out.fail("frame-unknown-packet", f"frame contains data of no received packet {ids[:5]}", self.desc)
            return set()
        pks = [self.arrivals[i] for i in ids]
        edge = set()
        if self.pad_by_seq:
            # padding-only packets leave no trace in the data: inside the run they are the only legitimate gaps, at its
            # ends they may or may not have been part of the frame
            def pad_at(seq):
                return next((q for q in self.pad_by_seq.get(seq, ()) if q.ts == frame.timestamp), None)

            full = [pks[0]]
            for b in pks[1:]:
                a = full[-1]
                gap = (b.seq - a.seq) & 0xFFFF
                if 1 < gap <= 64:
                    fill = [pad_at((a.seq + k) & 0xFFFF) for k in range(1, gap)]
                    if all(f is not None for f in fill):
                        full.extend(fill)
                full.append(b)
            pks = full
            for start, step in ((pks[0].seq, -1), (pks[-1].seq, 1)):
                k = 1
                while k <= 64 and pad_at((start + step * k) & 0xFFFF) is not None:
                    edge.add((start + step * k) & 0xFFFF)
                    k += 1
        if any(p.ts != frame.timestamp for p in pks):
            out.fail("frame-mixed-timestamps", f"frame.timestamp={frame.timestamp} built from packets with timestamps "
                     f"{sorted({p.ts for p in pks})[:4]} (seqs {[p.seq for p in pks][:8]})", self.desc)
        if any(((b.seq - a.seq) & 0xFFFF) != 1 for a, b in zip(pks, pks[1:])):
            out.fail("frame-not-consecutive", f"frame built from sequence numbers {[p.seq for p in pks][:12]}", self.desc)
        absids = {p.abs for p in pks}
        if len(absids) != len(pks):
            out.fail("frame-repeats-packet", f"one packet twice inside a frame: seqs {[p.seq for p in pks][:12]}", self.desc)
        if not self.late100:
            out.counters["order_checks"] += 1
            reused = absids & self.used
            if reused:
                out.fail("packet-used-twice", f"packets already released are released again (seqs "
                         f"{sorted(p.seq for p in pks if p.abs in reused)[:6]}) although no arrival was >= 100 late", self.desc)
            far = self.last_frame_seq is not None and 0x4000 <= ((pks[0].seq - self.last_frame_seq) & 0xFFFF) <= 0xC000
            if far:
                # after a legitimate forward jump two successive frames may be about half the number space apart,
                # where serial order is not defined
                out.counters["order_undefined_far_apart"] += 1
            elif self.last_frame_seq is not None and not serial_lt16(self.last_frame_seq, pks[0].seq):
                out.fail("frames-out-of-order", f"frame starting at seq {pks[0].seq} released after one starting at "
                         f"{self.last_frame_seq}", self.desc)
        self.used |= absids
        self.last_released_seqs = {p.seq for p in pks} | edge
        self.last_frame_seq = pks[0].seq
        self.released_frames.append(sorted({p.frame for p in pks}))
        for p in pks:
            if not p.pad:
                self.released_pk[p.abs] += 1
        return absids


def collections_counter():
    import collections

    return collections.Counter()


# ------------------------------------------------------------------------------------------------ generators


def gen_stream(rng, n_frames, max_len, start=None, ts0=None):
    if start is None:
        start = rng.choice([65536 - rng.randint(1, 300), rng.randrange(65536), 0, 65535])
    if ts0 is None:
        ts0 = rng.choice([0, rng.randrange(1 << 32), (1 << 32) - rng.randint(1, 20) * 3000])
    pks = []
    a = 0
    sizes = []
    padding = rng.random() < 0.25
    for f in range(n_frames):
        n = rng.randint(1, max_len)
        sizes.append(n)
        pads = set()
        if padding and n >= 2 and rng.random() < 0.4:
            pads = set(rng.sample(range(n), rng.randint(1, min(2, n - 1))))
        for j in range(n):
            pks.append(Pk(a, (start + a) & 0xFFFF, (ts0 + 3000 * f) & 0xFFFFFFFF, f, pad=j in pads))
            a += 1
    return pks, sizes


def perturb(rng, pks, disp):
    if disp <= 0:
        return list(pks)
    keyed = sorted(((i + rng.random() * disp, i) for i in range(len(pks))))
    return [pks[i] for _, i in keyed]


def gen_history(rng):
    capacity = rng.choice([4, 8, 16, 32, 64, 128])
    prefetch = rng.choice([0, 0, 1, 2, 3, 4])
    is_video = rng.random() < 0.6
    mode = rng.choice(["benign", "benign", "disp", "dup", "loss", "burstloss", "frameloss", "fwdjump", "hugejump",
                       "backjump", "bigbackjump", "restart", "chaos", "stale-dup"])
    feats = {"mode": mode}
    if mode == "benign":
        max_len = max(1, min(12, capacity // (2 * (prefetch + 2)) - 1))
        disp = rng.choice([0, 0, 1, 2, max(0, capacity // 4 - 1)])
        disp = min(disp, max(0, capacity - max_len * (prefetch + 2) - 3))
        pks, sizes = gen_stream(rng, rng.randint(5, 60), max_len)
        if rng.random() < 0.85:
            arr = [pks[0]] + perturb(rng, pks[1:], disp)  # the stream's first packet arrives first
        else:
            arr = perturb(rng, pks, disp)
        feats["first_arrival_abs"] = arr[0].abs
        feats["first_arrival_frame"] = arr[0].frame
        if disp and rng.random() < 0.4:
            # duplicates displaced by less than disp
            for _ in range(rng.randint(1, 5)):
                i = rng.randrange(len(arr))
                arr.insert(min(len(arr), i + rng.randint(0, max(1, int(disp)))), arr[i])
            feats["dups"] = True
        # the prefetch window plus the displacement must fit: otherwise the buffer legitimately overflows
        flush_len = max(2, max_len)
        fits = flush_len * (max(prefetch, 1) + 1) + int(disp) + 2 <= capacity
        feats.update(benign=fits, disp=disp, max_len=max_len)
        if fits:
            # add() releases at most one frame per call, so after reordering a backlog of complete frames may remain;
            # traffic continues with in-order multi-packet frames, which drains it (2 calls per frame)
            a0 = pks[-1].abs + 1
            f0 = pks[-1].frame + 1
            for f in range(capacity + 4):
                for k in range(flush_len):
                    a = a0 + f * flush_len + k
                    arr.append(Pk(a, (pks[0].seq + a) & 0xFFFF, (pks[0].ts + 3000 * (f0 + f)) & 0xFFFFFFFF, f0 + f))
            feats["flush_frames"] = capacity + 4
        return capacity, prefetch, is_video, arr, pks, sizes, feats
    max_len = rng.choice([1, 2, 4, 8, 12])
    pks, sizes = gen_stream(rng, rng.randint(5, 60), max_len)
    arr = list(pks)
    if mode in ("disp", "chaos"):
        arr = perturb(rng, arr, rng.choice([2, capacity // 2, capacity, 3 * capacity, 150, 400]))
    if mode in ("dup", "chaos", "stale-dup"):
        for _ in range(rng.randint(1, 12)):
            i = rng.randrange(len(arr))
            lag = rng.choice([0, 1, 3, capacity - 1, capacity, capacity + 1, 60, 99, 100, 101, 150]) if mode != "dup" \
                else rng.choice([0, 1, 2, 5])
            arr.insert(min(len(arr), i + lag), arr[i])
    if mode in ("loss", "chaos"):
        arr = [p for p in arr if rng.random() > rng.choice([0.02, 0.1, 0.3])]
    if mode == "burstloss":
        i = rng.randrange(len(arr))
        del arr[i:i + rng.choice([1, 2, capacity - 1, capacity, capacity + 1, 2 * capacity])]
    if mode == "frameloss":
        dead = set(rng.sample(range(len(sizes)), min(len(sizes), rng.randint(1, 4))))
        arr = [p for p in arr if p.frame not in dead]
    if mode in ("fwdjump", "hugejump", "backjump", "bigbackjump", "restart"):
        cut = rng.randrange(1, len(arr)) if len(arr) > 1 else 1
        jump = {"fwdjump": rng.choice([capacity, capacity + 1, 2 * capacity, 1000, 32767]),
                "hugejump": rng.choice([32768, 32769, 40000, 65000]),
                "backjump": -rng.choice([1, 5, 50, 99]),
                "bigbackjump": -rng.choice([100, 101, 500, 20000]),
                "restart": rng.randrange(65536)}[mode]
        base_abs = arr[cut - 1].abs + 1 if cut else 0
        tail = []
        for k, p in enumerate(arr[cut:]):
            tail.append(Pk(10_000_000 + k, (p.seq + jump) & 0xFFFF, (p.ts + 77 * 3000 * 1000) & 0xFFFFFFFF, p.frame + 100000))
        arr = arr[:cut] + tail
        feats["jump"] = jump
    if not arr:
        arr = list(pks)
    return capacity, prefetch, is_video, arr, pks, sizes, feats


def run_history(rng, out, capacity, prefetch, is_video, arr, pks, sizes, feats):
    from aiortc.jitterbuffer import JitterBuffer

    desc = {"capacity": capacity, "prefetch": prefetch, "video": is_video, "feats": feats,
            "arrivals": [(p.seq, p.ts) for p in arr[:40]], "n_arrivals": len(arr), "frame_sizes": sizes[:20]}
    jb = JitterBuffer(capacity=capacity, prefetch=prefetch, is_video=is_video)
    mon = Monitor(jb, is_video, out, desc)
    mon.expect_release = bool(feats.get("benign")) and hasattr(jb, "_prefetch") and not feats.get("first_arrival_abs")
    for p in arr:
        if mon.add(p) == "raised":
            break
    out.counters["histories"] += 1
    if feats.get("benign"):
        out.counters["completeness_checks"] += 1
        n_frames = len(sizes)
        keep = 0  # the flush traffic that follows pushes every generated frame out
        want = list(range(0, n_frames))
        got = [f for fr in mon.released_frames for f in fr]
        missing = [f for f in want if f not in got]
        # padding-only packets at the ends of a frame leave no trace in the data: only packets that carry data are counted
        partial = [p.frame for p in pks if p.frame in want and not p.pad and mon.released_pk[p.abs] != 1]
        affected = set(missing) | set(partial)
        if affected and feats.get("first_arrival_abs", 0) > 0 and max(affected) <= feats["first_arrival_frame"]:
            # known mechanism: the buffer anchors at the first arrival; lower-numbered packets arriving later are discarded
            out.fail("start-anchored-at-first-arrival", f"stream whose first packets arrive out of order: first arrival is packet "
                     f"#{feats['first_arrival_abs']} (frame {feats['first_arrival_frame']}); frames {sorted(affected)[:5]} lost or partial", desc)
        elif missing or partial:
            out.fail("benign-history-incomplete", f"complete stream, displacement {feats['disp']}, frames of <= {feats['max_len']} "
                     f"packets: frames {missing[:5]} never released / packets of frames {sorted(set(partial))[:5]} not released "
                     f"exactly once ({n_frames} frames followed by in-order flush traffic)", desc)
    if mon.released_frames:
        out.distinct((capacity, prefetch, is_video, feats["mode"], feats.get("jump", 0) and (feats["jump"] > 0),
                      mon.late100, min(len(mon.released_frames), 5), any(len(f) > 1 for f in mon.released_frames)))
    if out.want_sample():
        out.sample(desc | {"frames_released": len(mon.released_frames), "late100": mon.late100})


STRUCTS5 = [[1, 1, 1, 1, 1], [2, 1, 2], [1, 2, 2], [3, 2], [2, 3]]
STRUCTS6 = [[1, 1, 1, 1, 1, 1], [2, 2, 2], [1, 2, 1, 2], [3, 3], [2, 1, 3], [1, 1, 2, 2]]


def case_enum(rng, out, tier, index):
    structs = STRUCTS6 if tier == "thorough" else STRUCTS5
    sizes = structs[index % len(structs)]
    prefetch = (index // len(structs)) % 2
    is_video = (index // (2 * len(structs))) % 2 == 0
    start = [65534, 0, 1000, 65535 - 2][(index // (4 * len(structs))) % 4]
    pks = []
    a = 0
    for f, n in enumerate(sizes):
        for _ in range(n):
            pks.append(Pk(a, (start + a) & 0xFFFF, (0xFFFFFFFF - 3000 + 3000 * f) & 0xFFFFFFFF, f))
            a += 1
    n = 0
    for perm in itertools.permutations(pks):
        variants = [list(perm)]
        # at most one duplicate: every packet x every later insertion point (sampled in quick to keep the case short)
        for i in range(len(perm)):
            for j in range(i + 1, len(perm) + 1):
                if tier == "thorough" or (i + j + n) % 3 == 0:
                    v = list(perm)
                    v.insert(j, perm[i])
                    variants.append(v)
        for arr in variants:
            run_history(rng, out, 4, prefetch, is_video, arr, pks, sizes, {"mode": "enum", "struct": sizes, "start": start})
            n += 1
    out.counters["enumerated_histories"] += n


N_ENUM = {"quick": 40, "thorough": 96}


def plan(tier):
    if tier == "thorough":
        return dict(cases=24000, shards=16, timeout=2400, min_nontrivial=1500)
    return dict(cases=1200, shards=16, timeout=240, min_nontrivial=400)


def run_case(index, rng, tier):
    out = Batch("C10", "c10", checked_counter="adds_checked")
    if index < N_ENUM[tier]:
        case_enum(rng, out, tier, index)
        out.counters["kind_enum"] += 1
    else:
        for _ in range(25):
            run_history(rng, out, *gen_history(rng))
        out.counters["kind_random"] += 1
    res = out.result()
    res["evals"] = out.counters.get("adds_checked", 0)
    return res
