"""C07 - RTP and RTCP packets round-trip through serialisation with exact field semantics (Pure, DESIGN 3/C07).

Every case is a batch of generated values of one kind; the real builders / parsers are called and the round-trip
relations of the statement are evaluated on every value.  Contracts (icontract) installed on the helper functions
are evaluated on every call the library makes to them while the batch runs.
"""
import random
import struct

from vt.core.contracts import install_rtp_contracts, contract_counts

ID = "C07"
LEVEL = "exploration"
RULE = ("Each case = a batch of 150-400 generated values of one kind (RTP packet with random header fields at/around "
        "boundaries, 0-15 CSRCs, padding 0/1/255, any subset of the seven header extensions under a random id map with ids "
        "in 1-14 and 15-255, value lengths chosen to flip one-/two-byte form; SR/RR with 0-31 report blocks; SDES 0-31 "
        "chunks x 0-8 items; BYE 0-31 sources; NACK lost-sets (runs, 16/17-apart boundaries, sets straddling 65535->0 in "
        "serial and numeric order); PSFB PLI/FIR/REMB/arbitrary FCI; compound packets of 1-6 of these; RTX wrap/unwrap; "
        "packets_lost clamp/pack/unpack; REMB bitrates 0..2^63). Oracle: parse(serialise(v)) field-equal to v, "
        "bytes(parse(b)) == b for RTCP, NACK denotes the same set of 16-bit numbers, clamp saturates, REMB never rounds up "
        "and loses < 2^-17, RTX exactly invertible. Distinct/non-trivial = distinct (kind, form, boundary-class vector) "
        "tuples among the values.")
ASSUMPTIONS = [
    "values are generated inside the wire ranges of their fields (counts 0-31, 8/16/24/32-bit fields, FCI a multiple of 4 bytes)",
    "padding bytes are random by design and excluded from equality (padding_size is compared)",
    "header-extension fields whose extension is not configured in the id map are not expected to survive",
]
DECIDING = ["roundtrips_checked", "contract_evaluations"]

U16 = [0, 1, 2, 127, 128, 255, 256, 32767, 32768, 65534, 65535]
U32 = [0, 1, 2, 255, 65535, 65536, (1 << 31) - 1, 1 << 31, (1 << 32) - 2, (1 << 32) - 1]
URIS = {
    "mid": "urn:ietf:params:rtp-hdrext:sdes:mid",
    "repaired_rtp_stream_id": "urn:ietf:params:rtp-hdrext:sdes:repaired-rtp-stream-id",
    "rtp_stream_id": "urn:ietf:params:rtp-hdrext:sdes:rtp-stream-id",
    "abs_send_time": "http://www.webrtc.org/experiments/rtp-hdrext/abs-send-time",
    "transmission_offset": "urn:ietf:params:rtp-hdrext:toffset",
    "audio_level": "urn:ietf:params:rtp-hdrext:ssrc-audio-level",
    "transport_sequence_number": "http://www.ietf.org/id/draft-holmer-rmcat-transport-wide-cc-extensions-01",
}
FIELDS = list(URIS)


def setup(tier):
    install_rtp_contracts()


def u16(rng):
    return rng.choice(U16) if rng.random() < 0.4 else rng.randrange(1 << 16)


def u32(rng):
    return rng.choice(U32) if rng.random() < 0.4 else rng.randrange(1 << 32)


def cls16(v):
    return "0" if v == 0 else "max" if v == 65535 else "hi" if v >= 32768 else "lo"


def cls32(v):
    return "0" if v == 0 else "max" if v == (1 << 32) - 1 else "hi" if v >= 1 << 31 else "lo"


# ------------------------------------------------------------------------------------------------ RTP


def gen_ext_map(rng):
    from aiortc.rtcrtpparameters import RTCRtpHeaderExtensionParameters, RTCRtpParameters
    from aiortc.rtp import HeaderExtensionsMap

    chosen = [f for f in FIELDS if rng.random() < 0.7]
    style = rng.choice(["low", "low", "high", "mixed", "edge"])
    pool = {"low": list(range(1, 15)), "high": list(range(15, 256)), "mixed": list(range(1, 256)),
            "edge": [1, 13, 14, 15, 16, 254, 255, 2, 3, 4]}[style]
    ids = rng.sample(pool, len(chosen))
    params = RTCRtpParameters()
    params.headerExtensions = [RTCRtpHeaderExtensionParameters(id=i, uri=URIS[f]) for f, i in zip(chosen, ids)]
    m = HeaderExtensionsMap()
    m.configure(params)
    return m, dict(zip(chosen, ids)), style


def gen_text(rng, ascii_only):
    n = rng.choice([0, 1, 2, 15, 16, 17, 18, 40, 255, rng.randint(0, 255)])
    if ascii_only:
        return "".join(rng.choice("abcXYZ019-_") for _ in range(n))
    alphabet = rng.choice(["abc", "aé", "a€", "a\U0001f600é"])
    out = ""
    while True:
        ch = rng.choice(alphabet)
        if len((out + ch).encode()) > n:
            break
        out += ch
    return out


def gen_extensions(rng, configured):
    from aiortc.rtp import HeaderExtensions

    x = HeaderExtensions()
    cls = []
    for f in FIELDS:
        if rng.random() < 0.55:
            continue
        if f == "mid":
            x.mid = gen_text(rng, False)
            n = len(x.mid.encode())
        elif f in ("repaired_rtp_stream_id", "rtp_stream_id"):
            v = gen_text(rng, True)
            setattr(x, f, v)
            n = len(v)
        elif f == "abs_send_time":
            x.abs_send_time = rng.choice([0, 1, (1 << 24) - 1, rng.randrange(1 << 24)])
            n = 3
        elif f == "transmission_offset":
            x.transmission_offset = rng.choice([0, 1, -1, (1 << 23) - 1, -(1 << 23), 255, 256, -256, 65535, 65536,
                                                rng.randrange(-(1 << 23), 1 << 23)])
            n = 3
        elif f == "audio_level":
            x.audio_level = (rng.random() < 0.5, rng.choice([0, 1, 126, 127, rng.randrange(128)]))
            n = 1
        else:
            x.transport_sequence_number = u16(rng)
            n = 2
        if f in configured:
            cls.append((f, "0" if n == 0 else "16" if n == 16 else "17" if n == 17 else "le16" if n < 16 else "gt17"))
    return x, tuple(cls)


def ext_equal(a, b, configured):
    diffs = []
    for f in FIELDS:
        va, vb = getattr(a, f), getattr(b, f)
        if f in configured:
            if va != vb:
                diffs.append((f, va, vb))
        elif vb is not None:
            diffs.append((f, "unconfigured but parsed", vb))
    return diffs


def case_rtp(rng, out):
    from aiortc.rtp import RtpPacket

    m, configured, style = gen_ext_map(rng)
    for _ in range(200):
        p = RtpPacket(payload_type=rng.choice([0, 1, 96, 126, 127, rng.randrange(128)]), marker=rng.randrange(2),
                      sequence_number=u16(rng), timestamp=u32(rng), ssrc=u32(rng),
                      payload=rng.randbytes(rng.choice([0, 1, 2, 100, 1200, 1400, rng.randint(0, 1400)])))
        p.csrc = [u32(rng) for _ in range(rng.choice([0, 0, 1, 2, 15, rng.randint(0, 15)]))]
        p.padding_size = rng.choice([0, 0, 0, 1, 2, 255, rng.randint(1, 255)])
        p.extensions, xcls = gen_extensions(rng, configured)
        desc = {"kind": "rtp", "pt": p.payload_type, "seq": p.sequence_number, "ts": p.timestamp, "ssrc": p.ssrc,
                "csrc": len(p.csrc), "pad": p.padding_size, "ext": repr(p.extensions), "ids": configured,
                "payload_len": len(p.payload)}
        try:
            data = p.serialize(m)
            q = RtpPacket.parse(data, m)
        except Exception as exc:
            out.fail("rtp-roundtrip-raises", f"{type(exc).__name__}: {exc}", desc, exc)
            continue
        out.checked()
        diffs = [(f, getattr(p, f), getattr(q, f)) for f in
                 ("version", "marker", "payload_type", "sequence_number", "timestamp", "ssrc", "csrc", "payload", "padding_size")
                 if getattr(p, f) != getattr(q, f)]
        diffs += ext_equal(p.extensions, q.extensions, configured)
        if diffs:
            out.fail("rtp-roundtrip-differs", f"fields differ after parse(serialize()): {diffs[:3]!r}"[:400], desc)
        if len(data) % 4 and p.padding_size == 0 and len(p.payload) % 4 == 0:
            out.fail("rtp-header-unaligned", f"header not a multiple of 4 bytes ({len(data)})", desc)
        has_ext = any(getattr(p.extensions, f) is not None for f in configured)
        form = "none"
        if has_ext:
            off = 12 + 4 * len(p.csrc)
            prof = struct.unpack_from("!H", data, off)[0]
            form = "one" if prof == 0xBEDE else "two" if prof == 0x1000 else hex(prof)
            need_two = any((configured[f] > 14) for f in configured if getattr(p.extensions, f) is not None) or \
                any(c[1] in ("0", "17", "gt17") for c in xcls)
            if form not in ("one", "two") or (form == "one") == need_two:
                out.fail("rtp-extension-form", f"extension form {form}, two-byte needed={need_two}", desc)
        out.distinct(("rtp", form, style, xcls, cls16(p.sequence_number), cls32(p.timestamp), min(len(p.csrc), 2),
                      min(p.padding_size, 2), min(len(p.payload), 1)))
        if out.want_sample():
            out.sample(desc | {"bytes": len(data), "form": form})


def case_rtx(rng, out):
    from aiortc.rtp import RtpPacket, unwrap_rtx, wrap_rtx

    m, configured, style = gen_ext_map(rng)
    for _ in range(200):
        p = RtpPacket(payload_type=rng.randrange(128), marker=rng.randrange(2), sequence_number=u16(rng),
                      timestamp=u32(rng), ssrc=u32(rng), payload=rng.randbytes(rng.choice([0, 1, 2, 3, 1200, rng.randint(0, 1300)])))
        p.csrc = [u32(rng) for _ in range(rng.choice([0, 0, 3]))]
        p.extensions, xcls = gen_extensions(rng, configured)
        rpt, rseq, rssrc = rng.randrange(128), u16(rng), u32(rng)
        desc = {"kind": "rtx", "seq": p.sequence_number, "rtx_seq": rseq, "payload_len": len(p.payload)}
        try:
            rtx = wrap_rtx(p, payload_type=rpt, sequence_number=rseq, ssrc=rssrc)
            wire = RtpPacket.parse(rtx.serialize(m), m)
            back = unwrap_rtx(wire, payload_type=p.payload_type, ssrc=p.ssrc)
        except Exception as exc:
            out.fail("rtx-raises", f"{type(exc).__name__}: {exc}", desc, exc)
            continue
        out.checked()
        if (rtx.payload_type, rtx.sequence_number, rtx.ssrc, rtx.timestamp, rtx.marker) != (rpt, rseq, rssrc, p.timestamp, p.marker):
            out.fail("rtx-header", "RTX packet does not carry the RTX pt/seq/ssrc and the original timestamp/marker", desc)
        if rtx.payload != struct.pack("!H", p.sequence_number) + p.payload:
            out.fail("rtx-payload", "RTX payload is not OSN + original payload", desc)
        diffs = [(f, getattr(p, f), getattr(back, f)) for f in
                 ("marker", "payload_type", "sequence_number", "timestamp", "ssrc", "csrc", "payload")
                 if getattr(p, f) != getattr(back, f)]
        diffs += ext_equal(p.extensions, back.extensions, configured)
        if diffs:
            out.fail("rtx-not-invertible", f"unwrap(wrap(p)) differs: {diffs[:3]!r}"[:300], desc)
        out.distinct(("rtx", cls16(p.sequence_number), cls16(rseq), min(len(p.payload), 3), xcls))
        if out.want_sample():
            out.sample(desc)


# ------------------------------------------------------------------------------------------------ RTCP


def gen_report(rng):
    from aiortc.rtp import RtcpReceiverInfo, clamp_packets_lost

    lost = rng.choice([0, 1, -1, (1 << 23) - 1, -(1 << 23), (1 << 23), -(1 << 23) - 1, 1 << 30, -(1 << 30),
                       rng.randrange(-(1 << 25), 1 << 25)])
    return RtcpReceiverInfo(ssrc=u32(rng), fraction_lost=rng.choice([0, 1, 255, rng.randrange(256)]),
                            packets_lost=clamp_packets_lost(lost), highest_sequence=u32(rng), jitter=u32(rng),
                            lsr=u32(rng), dlsr=u32(rng))


def gen_count(rng):
    return rng.choice([0, 1, 2, 30, 31, rng.randint(0, 31)])


def gen_lost(rng):
    """NACK lost list as the library's own users build it (ascending serial order) or numerically sorted."""
    mode = rng.choice(["single", "run", "sparse", "b16", "b17", "wrap-serial", "wrap-numeric", "random"])
    base = u16(rng)
    if mode == "single":
        offs = [0]
    elif mode == "run":
        offs = list(range(rng.choice([2, 16, 17, 18, 33, 40])))
    elif mode == "sparse":
        offs = sorted(rng.sample(range(0, 120), rng.randint(2, 12)))
    elif mode == "b16":
        offs = [0, 16] + ([rng.choice([32, 33])] if rng.random() < 0.5 else [])
    elif mode == "b17":
        offs = [0, 17, 18]
    elif mode in ("wrap-serial", "wrap-numeric"):
        base = 65536 - rng.randint(1, 20)
        offs = sorted(rng.sample(range(0, 50), rng.randint(2, 10)))
        if not any((base + o) > 65535 for o in offs):
            offs.append(65536 - base + rng.randint(0, 5))
            offs = sorted(set(offs))
    else:
        offs = sorted(rng.sample(range(0, 128), rng.randint(1, 30)))
    lost = [(base + o) & 0xFFFF for o in offs]
    if mode == "wrap-numeric":
        lost = sorted(lost)
    wraps = any(b < a for a, b in zip(lost, lost[1:])) or (mode == "wrap-numeric" and max(lost) - min(lost) > 60000)
    return lost, mode, wraps


def gen_rtcp(rng, kind=None):
    from aiortc import rtp

    kind = kind or rng.choice(["sr", "rr", "sdes", "bye", "nack", "pli", "fir", "remb", "psfb", "rtpfb-other"])
    if kind == "sr":
        n = gen_count(rng)
        p = rtp.RtcpSrPacket(ssrc=u32(rng), sender_info=rtp.RtcpSenderInfo(
            ntp_timestamp=rng.choice([0, (1 << 64) - 1, rng.randrange(1 << 64)]), rtp_timestamp=u32(rng),
            packet_count=u32(rng), octet_count=u32(rng)), reports=[gen_report(rng) for _ in range(n)])
        return p, ("sr", min(n, 2), n == 31)
    if kind == "rr":
        n = gen_count(rng)
        return rtp.RtcpRrPacket(ssrc=u32(rng), reports=[gen_report(rng) for _ in range(n)]), ("rr", min(n, 2), n == 31)
    if kind == "sdes":
        n = rng.choice([1, 1, 2, 3, 31, rng.randint(1, 31)])
        chunks = []
        shape = []
        for _ in range(n):
            items = [(rng.choice([1, 2, 7, 8, 255, rng.randint(1, 255)]),
                      rng.randbytes(rng.choice([0, 1, 2, 3, 4, 5, 254, 255, rng.randint(0, 255)])))
                     for _ in range(rng.choice([0, 1, 1, 2, 8]))]
            shape.append(sum(2 + len(v) for _, v in items) % 4)
            chunks.append(rtp.RtcpSourceInfo(ssrc=u32(rng), items=items))
        return rtp.RtcpSdesPacket(chunks=chunks), ("sdes", min(n, 3), tuple(shape[:3]))
    if kind == "bye":
        n = gen_count(rng)
        return rtp.RtcpByePacket(sources=[u32(rng) for _ in range(n)]), ("bye", min(n, 2), n == 31)
    if kind == "nack":
        lost, mode, wraps = gen_lost(rng)
        return rtp.RtcpRtpfbPacket(fmt=rtp.RTCP_RTPFB_NACK, ssrc=u32(rng), media_ssrc=u32(rng), lost=lost), ("nack", mode, wraps)
    if kind == "rtpfb-other":
        return rtp.RtcpRtpfbPacket(fmt=rng.choice([2, 3, 15, 31]), ssrc=u32(rng), media_ssrc=u32(rng), lost=[]), ("rtpfb", 0)
    if kind == "pli":
        return rtp.RtcpPsfbPacket(fmt=rtp.RTCP_PSFB_PLI, ssrc=u32(rng), media_ssrc=u32(rng)), ("pli",)
    if kind == "fir":
        return rtp.RtcpPsfbPacket(fmt=rtp.RTCP_PSFB_FIR, ssrc=u32(rng), media_ssrc=0,
                                  fci=struct.pack("!LB3x", u32(rng), rng.randrange(256))), ("fir",)
    if kind == "remb":
        bitrate = gen_bitrate(rng)
        ssrcs = [u32(rng) for _ in range(rng.choice([0, 1, 2, 3, 255, rng.randint(0, 255)]))]
        return rtp.RtcpPsfbPacket(fmt=rtp.RTCP_PSFB_APP, ssrc=u32(rng), media_ssrc=0,
                                  fci=rtp.pack_remb_fci(bitrate, ssrcs)), ("remb", bitrate.bit_length() // 8, min(len(ssrcs), 3))
    return rtp.RtcpPsfbPacket(fmt=rng.randrange(32), ssrc=u32(rng), media_ssrc=u32(rng),
                              fci=rng.randbytes(4 * rng.choice([0, 1, 2, 10, rng.randint(0, 60)]))), ("psfb",)


def gen_bitrate(rng):
    r = rng.random()
    if r < 0.2:
        return rng.choice([0, 1, 0x3FFFF, 0x40000, 0x40001, 0x7FFFF, 0x80000, (1 << 63), (1 << 63) - 1, (1 << 32) - 1])
    if r < 0.6:
        k = rng.randint(0, 63)
        return max(0, (1 << k) + rng.choice([-1, 0, 1, rng.randrange(1 << k) if k else 0]))
    return rng.randrange(1 << rng.randint(1, 63))


def check_rtcp_semantics(orig, parsed, out, desc):
    from aiortc import rtp

    if isinstance(orig, rtp.RtcpRtpfbPacket) and orig.fmt == rtp.RTCP_RTPFB_NACK:
        if any(not (0 <= x <= 65535) for x in parsed.lost):
            out.fail("nack-not-16-bit", f"parsed NACK lists numbers outside 0..65535: {[x for x in parsed.lost if not 0 <= x <= 65535][:4]}", desc)
        if {x & 0xFFFF for x in parsed.lost} != set(orig.lost):
            out.fail("nack-set-differs", f"NACK set differs: sent {sorted(set(orig.lost))[:6]}.. parsed {sorted(set(parsed.lost))[:6]}..", desc)
    if isinstance(orig, rtp.RtcpPsfbPacket) and orig.fmt == rtp.RTCP_PSFB_APP and orig.fci[:4] == b"REMB":
        out.counters["remb_checked"] += 1


def case_rtcp(rng, out, kind=None, compound=False):
    from aiortc import rtp

    for _ in range(200):
        n = rng.randint(1, 6) if compound else 1
        pkts, cls = [], []
        for _ in range(n):
            p, c = gen_rtcp(rng, kind)
            pkts.append(p)
            cls.append(c)
        desc = {"kind": "rtcp-compound" if compound else "rtcp", "packets": [repr(p)[:160] for p in pkts[:3]], "n": n}
        try:
            data = b"".join(bytes(p) for p in pkts)
            back = rtp.RtcpPacket.parse(data)
        except Exception as exc:
            out.fail("rtcp-roundtrip-raises", f"{type(exc).__name__}: {exc}", desc, exc)
            continue
        out.checked()
        if len(back) != len(pkts):
            out.fail("rtcp-count", f"{len(pkts)} packets built, {len(back)} parsed", desc)
            continue
        for o, b in zip(pkts, back):
            if type(o) is not type(b):
                out.fail("rtcp-type", f"{type(o).__name__} parsed as {type(b).__name__}", desc)
                continue
            check_rtcp_semantics(o, b, out, desc)
            is_nack = isinstance(o, rtp.RtcpRtpfbPacket) and o.fmt == rtp.RTCP_RTPFB_NACK
            if is_nack:
                same = (o.fmt, o.ssrc, o.media_ssrc) == (b.fmt, b.ssrc, b.media_ssrc)
            else:
                same = o == b
            if not same:
                out.fail("rtcp-roundtrip-differs:" + type(o).__name__, f"sent {o!r}"[:200] + f" parsed {b!r}"[:200], desc)
            try:
                if bytes(b) != bytes(o) and not is_nack:
                    out.fail("rtcp-reserialise-differs:" + type(o).__name__, "bytes(parse(b)) != b", desc)
            except Exception as exc:
                out.fail("rtcp-reserialise-raises:" + type(o).__name__, f"{type(exc).__name__}: {exc}", desc, exc)
        if len(data) % 4:
            out.fail("rtcp-unaligned", f"compound length {len(data)} not a multiple of 4", desc)
        out.distinct(("rtcp", tuple(cls)) if not compound else ("compound", tuple(c[0] for c in cls)))
        if out.want_sample():
            out.sample(desc | {"bytes": len(data)})


def case_nack_enum(rng, out):
    """single lost seq x one follower at distance 1..17, a slice of the 65536 x 17 grid per case (all seqs near the wrap)."""
    from aiortc import rtp

    start = rng.choice([0, 65536 - 64, rng.randrange(65536 - 64)])
    for s in range(start, start + 64):
        s &= 0xFFFF
        for d in range(1, 18):
            lost = [s, (s + d) & 0xFFFF]
            desc = {"kind": "nack-pair", "lost": lost}
            try:
                p = rtp.RtcpRtpfbPacket(fmt=rtp.RTCP_RTPFB_NACK, ssrc=1, media_ssrc=2, lost=lost)
                (b,) = rtp.RtcpPacket.parse(bytes(p))
            except Exception as exc:
                out.fail("rtcp-roundtrip-raises", f"{type(exc).__name__}: {exc}", desc, exc)
                continue
            out.checked()
            check_rtcp_semantics(p, b, out, desc)
            out.distinct(("nack-pair", d, "wrap" if lost[1] < lost[0] else "flat"))
    if out.want_sample():
        out.sample({"kind": "nack-pair", "start": start})


def case_scalar(rng, out):
    from aiortc import rtp

    for _ in range(400):
        n = rng.choice([0, 1, -1, (1 << 23) - 1, 1 << 23, (1 << 23) + 1, -(1 << 23), -(1 << 23) - 1, 1 << 31, -(1 << 31),
                        rng.randrange(-(1 << 26), 1 << 26)])
        desc = {"kind": "packets_lost", "n": n}
        try:
            c = rtp.clamp_packets_lost(n)
            u = rtp.unpack_packets_lost(rtp.pack_packets_lost(c))
        except Exception as exc:
            out.fail("packets-lost-raises", f"{type(exc).__name__}: {exc}", desc, exc)
            continue
        out.checked()
        want = max(-(1 << 23), min(n, (1 << 23) - 1))
        if c != want or u != c:
            out.fail("packets-lost", f"clamp({n})={c} (want {want}), unpack(pack())={u}", desc)
        out.distinct(("lost", "sat+" if n > (1 << 23) - 1 else "sat-" if n < -(1 << 23) else "in", n < 0))
        b = gen_bitrate(rng)
        ssrcs = [u32(rng) for _ in range(rng.choice([0, 1, 2, 255]))]
        desc = {"kind": "remb", "bitrate": b, "ssrcs": len(ssrcs)}
        try:
            fci = rtp.pack_remb_fci(b, ssrcs)
            b2, s2 = rtp.unpack_remb_fci(fci)
        except Exception as exc:
            out.fail("remb-raises", f"{type(exc).__name__}: {exc}", desc, exc)
            continue
        out.checked()
        if s2 != ssrcs:
            out.fail("remb-ssrcs", "SSRC list differs", desc)
        if not (0 <= b - b2 and (b - b2) * (1 << 17) < max(b, 1)) and not (b == b2):
            out.fail("remb-bitrate", f"bitrate {b} came back as {b2} (rounded up or relative error >= 2^-17)", desc)
        out.distinct(("remb", b.bit_length(), min(len(ssrcs), 2)))
    if out.want_sample():
        out.sample({"kind": "scalar", "last_bitrate": b})


KINDS = [("rtp", case_rtp), ("rtp", case_rtp), ("rtx", case_rtx),
         ("rtcp-sr", lambda r, o: case_rtcp(r, o, "sr")), ("rtcp-rr", lambda r, o: case_rtcp(r, o, "rr")),
         ("rtcp-sdes", lambda r, o: case_rtcp(r, o, "sdes")), ("rtcp-bye", lambda r, o: case_rtcp(r, o, "bye")),
         ("rtcp-nack", lambda r, o: case_rtcp(r, o, "nack")), ("rtcp-remb", lambda r, o: case_rtcp(r, o, "remb")),
         ("rtcp-psfb", lambda r, o: case_rtcp(r, o, rng_kind(r))), ("compound", lambda r, o: case_rtcp(r, o, None, True)),
         ("compound", lambda r, o: case_rtcp(r, o, None, True)), ("nack-enum", case_nack_enum), ("scalar", case_scalar)]


def rng_kind(rng):
    return rng.choice(["pli", "fir", "psfb", "rtpfb-other"])


def plan(tier):
    if tier == "thorough":
        return dict(cases=16000, shards=16, timeout=1500, min_nontrivial=2000)
    return dict(cases=448, shards=16, timeout=200, min_nontrivial=300)


def run_case(index, rng, tier):
    from vt.core.batch import Batch

    name, fn = KINDS[index % len(KINDS)]
    out = Batch("C07", name)
    before = contract_counts()
    fn(rng, out)
    after = contract_counts()
    out.counters["contract_evaluations"] += sum(after.values()) - sum(before.values())
    out.counters["kind_" + name] += 1
    return out.result()
