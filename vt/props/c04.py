"""C04 - DTLS connects only to the fingerprinted peer; both sides derive matching keys (rig R-DTLS)."""
import asyncio
import itertools

from vt.core.batch import Batch

ID = "C04"
LEVEL = "exploration"
RULE = ("Identity cases: two real RTCDtlsTransports (real OpenSSL handshake) over in-memory ICE; each side is handed a "
        "fingerprint list about its peer drawn from: every non-empty ordered subset of {sha-256, sha-384, sha-512} x per entry "
        "{correct, one hex digit corrupted, truncated} x {UPPER, lower, mIxEd} spelling of algorithm and value, with unsupported "
        "algorithms (sha-1, md5, foo) alone or mixed in. Specification predicate: connect iff at least one entry uses a supported "
        "hash and every supported entry equals the peer certificate's digest case-insensitively. Monitors (recording receiver, "
        "sender and data receiver) are registered before start(): any delivery on a side that is not 'connected' is a violation, "
        "as is 'connected' with the predicate false, or 'failed' with the predicate true on both sides. Key cases: every ordered "
        "non-empty subset of the SRTP profiles of this build on each side x both role assignments (explicit and via ICE role), "
        "certificates fresh or shared between successive transports: "
        "with a common profile both sides connect and every RTP, RTCP and data unit sent by one side (uid payloads) arrives "
        "byte-identical on the other; with 1-3 bits flipped in transit nothing altered is ever delivered. The class-reduced "
        "identity matrix is enumerated completely across a run. Distinct/non-trivial = distinct (list classes, profile lists, "
        "roles) cells."
        " The identity matrix includes lists naming one hash twice; a side that refused its peer is asked to send RTP/RTCP/data and must emit no datagram; an 'eager server' stratum coalesces the server's last handshake flight with its first application record into one datagram: nothing may be handed over before the client is 'connected'."
        ' Data messages of up to 1400 bytes go straight over DTLS.')
ASSUMPTIONS = [
    "OpenSSL, pyOpenSSL and libsrtp are trusted; the monitor checks how aiortc uses them",
    "in-memory ICE stand-in, loss-free during the handshake (OpenSSL's retransmission clock is real time)",
]
DECIDING = ["handshakes", "identity_checks", "payloads_checked", "tampered_sent"]
EXPLANATION = ("exhaustive for the class-reduced identity matrix (ordered subsets of the three supported hashes, and lists naming one hash "
               "twice, x correctness classes per entry, one spelling style each, with/without an unsupported entry) and for the SRTP profile matrix (ordered subsets x roles)")

SUPPORTED = ["sha-256", "sha-384", "sha-512"]
UNSUPPORTED = ["sha-1", "md5", "foo"]


def style(s, how):
    if how == "upper":
        return s.upper()
    if how == "lower":
        return s.lower()
    return "".join(c.upper() if i % 2 else c.lower() for i, c in enumerate(s))


def build_list(true_fps, algs, classes, styles, extra_unsupported, rng):
    from aiortc.rtcdtlstransport import RTCDtlsFingerprint

    true = {f.algorithm: f.value for f in true_fps}
    out = []
    for alg, cls, st in zip(algs, classes, styles):
        v = true[alg]
        if cls == "corrupt":
            i = rng.choice([k for k, ch in enumerate(v) if ch != ":"])
            repl = "0" if v[i] != "0" else "1"
            v = v[:i] + repl + v[i + 1:]
        elif cls == "truncated":
            v = v[:-3]
        out.append(RTCDtlsFingerprint(algorithm=style(alg, st), value=style(v, st)))
    for u in extra_unsupported:
        pos = rng.randint(0, len(out))
        out.insert(pos, RTCDtlsFingerprint(algorithm=u, value="AA:BB:CC:DD"))
    return out


def predicate(algs, classes):
    return len(algs) > 0 and all(c == "correct" for c in classes)


def identity_cells():
    cells = []
    for k in (1, 2, 3):
        for algs in itertools.permutations(SUPPORTED, k):
            for classes in itertools.product(["correct", "corrupt", "truncated"], repeat=k):
                cells.append((algs, classes))
    cells.append(((), ()))  # only unsupported algorithms
    # the same hash listed more than once (entries may differ in spelling): every entry has to match
    for a in SUPPORTED:
        for classes in itertools.product(["correct", "corrupt", "truncated"], repeat=2):
            cells.append(((a, a), classes))
    for a, b in (("sha-256", "sha-384"), ("sha-512", "sha-256"), ("sha-384", "sha-512")):
        for classes in itertools.product(["correct", "corrupt"], repeat=3):
            cells.append(((a, b, a), classes))
    return cells


async def identity_case(cell0, cell1, rng, out, unsupported):
    from vt.rigs.dtls import DtlsPair

    pair = DtlsPair()
    try:
        claims = []
        descs = []
        for side, (algs, classes) in enumerate((cell0, cell1)):
            styles = [rng.choice(["upper", "lower", "mixed"]) for _ in algs]
            extra = []
            if not algs:
                extra = [rng.choice(UNSUPPORTED)] + ([rng.choice(UNSUPPORTED)] if rng.random() < 0.5 else [])
            elif unsupported:
                extra = [rng.choice(UNSUPPORTED)]
            claims.append(build_list(pair.fingerprints(1 - side), algs, classes, styles, extra, rng))
            descs.append({"algs": list(algs), "classes": list(classes), "styles": styles, "unsupported": extra})
        desc = {"kind": "identity", "side0": descs[0], "side1": descs[1]}
        try:
            errs = await pair.start(claims[0], claims[1])
        except asyncio.TimeoutError:
            out.inconclusive = "handshake did not finish within 10 s"
            return
        out.counters["handshakes"] += 1
        await pair.settle()
        want = [predicate(*cell0), predicate(*cell1)]
        states = [t.state for t in pair.t]
        for i in range(2):
            out.counters["identity_checks"] += 1
            if isinstance(errs[i], Exception):
                out.fail("start-raises", f"side {i}: start() raised {type(errs[i]).__name__}: {errs[i]}", desc, errs[i])
            if states[i] == "connected" and not want[i]:
                out.fail("connected-to-unverified-peer", f"side {i} is 'connected' although its fingerprint list does not verify the peer: {descs[i]}", desc)
            if pair.stubs[i].early:
                out.fail("delivery-before-connected", f"side {i} delivered {pair.stubs[i].early[:3]} while not connected", desc)
        if all(want) and states != ["connected", "connected"]:
            out.fail("verified-peer-rejected", f"both lists verify the peer, states are {states}", desc)
        # traffic towards a side that refused the peer must not be delivered
        for i in range(2):
            if states[i] == "connected" and states[1 - i] != "connected":
                try:
                    await pair.t[i]._send_data(b"probe-to-failed-side")
                    await pair.t[i]._send_rtp(rtp_bytes(1000 + i, 7, b"x"))
                except Exception:
                    pass
                await pair.settle()
                s = pair.stubs[1 - i]
                if s.data or s.rtp or s.rtcp:
                    out.fail("failed-side-delivers", f"side {1 - i} is {states[1 - i]} but delivered application traffic", desc)
        # a side that refused the peer has no keys to use: nothing it is asked to send leaves it, SRTP or data
        for i in range(2):
            if states[i] != "connected":
                before = pair.ice[i].sent
                raised = []
                for name, fn, arg in (("_send_rtp", pair.t[i]._send_rtp, rtp_bytes(1000 + i, 9, b"y")),
                                      ("_send_rtp(rtcp)", pair.t[i]._send_rtp, sr_bytes(1000 + i, 1)),
                                      ("_send_data", pair.t[i]._send_data, b"from-failed-side")):
                    try:
                        await fn(arg)
                    except Exception as exc:
                        raised.append(type(exc).__name__)
                await pair.settle(5)
                out.counters["failed_side_send_attempts"] += 3
                s1 = pair.stubs[1 - i]
                if pair.ice[i].sent != before:
                    out.fail("failed-side-sends", f"side {i} is {states[i]} (peer not verified) but emitted {pair.ice[i].sent - before} datagrams when asked "
                             f"to send RTP/RTCP/data (exceptions: {raised}); the peer received rtp={len(s1.rtp)} rtcp={len(s1.rtcp)} data={len(s1.data)}", desc)
        out.distinct(("id", cell0, cell1, bool(unsupported)))
        if out.want_sample():
            out.sample(desc | {"states": states, "expected": want})
    finally:
        await pair.close()


def rtp_bytes(ssrc, seq, payload):
    from aiortc.rtp import RtpPacket

    return RtpPacket(payload_type=96, sequence_number=seq & 0xFFFF, timestamp=seq * 3000, ssrc=ssrc, payload=payload).serialize()


def sr_bytes(ssrc, n):
    from aiortc import rtp

    return bytes(rtp.RtcpSrPacket(ssrc=ssrc, sender_info=rtp.RtcpSenderInfo(ntp_timestamp=n, rtp_timestamp=n, packet_count=n, octet_count=n)))


async def key_case(p0, p1, roles, ice_roles, rng, out):
    from vt.rigs.dtls import DtlsPair

    pair = DtlsPair(roles=roles, profiles=(p0, p1), ice_roles=ice_roles, shared_certs=rng.random() < 0.7)
    names = lambda ps: [p.openssl_profile.decode() for p in ps]
    desc = {"kind": "keys", "profiles0": names(p0), "profiles1": names(p1), "roles": roles, "ice_roles": ice_roles}
    try:
        try:
            errs = await pair.start(pair.fingerprints(1), pair.fingerprints(0))
        except asyncio.TimeoutError:
            out.inconclusive = "handshake did not finish within 10 s"
            return
        out.counters["handshakes"] += 1
        await pair.settle()
        states = [t.state for t in pair.t]
        common = [p for p in p0 if p in p1]
        if common and states != ["connected", "connected"]:
            out.fail("common-profile-not-connected", f"common SRTP profiles {names(common)} but states {states} (start errors {errs})", desc)
            return
        if not common:
            if "connected" in states:
                out.fail("connected-without-common-profile", f"no common SRTP profile, states {states}", desc)
            return
        if pair.t[0]._role == pair.t[1]._role:
            out.fail("same-dtls-role", f"both sides have role {pair.t[0]._role}", desc)
        # clean traffic both ways
        sent = {0: {"rtp": [], "rtcp": [], "data": []}, 1: {"rtp": [], "rtcp": [], "data": []}}
        for n in range(12):
            for i in range(2):
                payload = f"{'AB'[i]}-rtp-{n}-".encode() + rng.randbytes(rng.choice([0, 1, 100, 1100]))
                sent[i]["rtp"].append(payload)
                await pair.t[i]._send_rtp(rtp_bytes(1000 + i, n, payload))
                if n % 3 == 0:
                    sent[i]["rtcp"].append(1000 * (i + 1) + n)
                    await pair.t[i]._send_rtp(sr_bytes(1000 + i, 1000 * (i + 1) + n))
                d = f"{'AB'[i]}-data-{n}-".encode() + rng.randbytes(rng.choice([1, 50, 1000, 1190, 1250, 1300, 1400]))
                sent[i]["data"].append(d)
                await pair.t[i]._send_data(d)
        await pair.settle()
        for i in range(2):
            got = pair.stubs[1 - i]
            out.counters["payloads_checked"] += len(sent[i]["rtp"]) + len(sent[i]["rtcp"]) + len(sent[i]["data"])
            if [p.payload for p in got.rtp] != sent[i]["rtp"]:
                out.fail("rtp-not-intact", f"side {i} sent {len(sent[i]['rtp'])} RTP packets, side {1 - i} received {len(got.rtp)} / contents differ", desc)
            if [p.sender_info.ntp_timestamp for p in got.rtcp if hasattr(p, "sender_info")] != sent[i]["rtcp"]:
                out.fail("rtcp-not-intact", f"side {i} sent SRs {sent[i]['rtcp']}, side {1 - i} received {[getattr(getattr(p, 'sender_info', None), 'ntp_timestamp', None) for p in got.rtcp]}", desc)
            if got.data != sent[i]["data"]:
                out.fail("data-not-intact", f"side {i} sent {len(sent[i]['data'])} data messages, side {1 - i} received {len(got.data)} / contents differ", desc)
        # tampering: flip 1-3 bits in every datagram of one direction
        for i in range(2):
            before = (len(pair.stubs[1 - i].rtp), len(pair.stubs[1 - i].rtcp), len(pair.stubs[1 - i].data))

            def flip(data):
                b = bytearray(data)
                for _ in range(rng.randint(1, 3)):
                    pos = rng.randrange(len(b) * 8)
                    if pos < 8:
                        pos += 8  # keep the demultiplexing byte class: the packet must reach SRTP/DTLS processing
                    b[pos // 8] ^= 1 << (pos % 8)
                return bytes(b)

            pair.ice[i].mutate = flip
            tampered = []
            for n in range(20, 32):
                payload = f"{'AB'[i]}-tampered-{n}-".encode() + rng.randbytes(40)
                tampered.append(payload)
                await pair.t[i]._send_rtp(rtp_bytes(1000 + i, n, payload))
                await pair.t[i]._send_rtp(sr_bytes(1000 + i, 777000 + n))
                try:
                    await pair.t[i]._send_data(payload)
                except Exception:
                    pass
                out.counters["tampered_sent"] += 3
            await pair.settle()
            pair.ice[i].mutate = None
            got = pair.stubs[1 - i]
            new_rtp = [p.payload for p in got.rtp[before[0]:]]
            new_rtcp = [p for p in got.rtcp[before[1]:]]
            new_data = got.data[before[2]:]
            altered = [p for p in new_rtp if p not in tampered] + [d for d in new_data if d not in tampered]
            if altered:
                out.fail("tampered-unit-delivered-altered", f"side {1 - i} delivered {len(altered)} units that are not byte-identical to anything sent "
                         f"(first {altered[0][:30]!r})", desc)
            bad_sr = [p for p in new_rtcp if getattr(getattr(p, "sender_info", None), "ntp_timestamp", None) not in range(777020, 777032)]
            if bad_sr:
                out.fail("tampered-rtcp-delivered-altered", f"side {1 - i} delivered altered RTCP {bad_sr[:2]!r}", desc)
            out.counters["tampered_delivered_intact"] += len(new_rtp) + len(new_data) + len(new_rtcp)
        out.distinct(("keys", tuple(names(p0)), tuple(names(p1)), roles, ice_roles))
        if out.want_sample():
            out.sample(desc | {"states": states, "negotiated_roles": [pair.t[0]._role, pair.t[1]._role]})
    finally:
        await pair.close()


def key_cells():
    from aiortc.rtcdtlstransport import SRTP_PROFILES

    subsets = []
    for k in range(1, len(SRTP_PROFILES) + 1):
        subsets += list(itertools.permutations(SRTP_PROFILES, k))
    cells = []
    for a in subsets:
        for b in subsets:
            cells.append((a, b, ("server", "client"), ("controlling", "controlled")))
            cells.append((a, b, ("client", "server"), ("controlling", "controlled")))
    # roles decided by the ICE role
    for a in subsets[:3]:
        cells.append((a, a, ("auto", "auto"), ("controlling", "controlled")))
        cells.append((a, a, ("auto", "auto"), ("controlled", "controlling")))
    return cells


def dtls_records(data):
    """[(content type, epoch)] of the DTLS records in one datagram."""
    out, i = [], 0
    while i + 13 <= len(data):
        ln = int.from_bytes(data[i + 11:i + 13], "big")
        out.append((data[i], int.from_bytes(data[i + 3:i + 5], "big")))
        i += 13 + ln
    return out


async def eager_case(cell, rng, out, swap_ice):
    """An eager peer: it is the DTLS server, so it is connected one flight before the client; it sends application data at
    once and the network delivers that record in the same datagram as the server's last handshake flight (records of one
    flight and of the next epoch may share a datagram).  The client under observation holds the fingerprint list `cell`:
    whatever it delivers must be delivered while it is 'connected', and nothing at all when the list does not verify."""
    from aiortc.rtcdtlstransport import RTCDtlsParameters
    from vt.rigs.dtls import DtlsPair

    ice_roles = ("controlled", "controlling") if swap_ice else ("controlling", "controlled")
    pair = DtlsPair(ice_roles=ice_roles)
    srv = 1 if swap_ice else 0   # role auto: the controlling side is the DTLS server
    cli = 1 - srv
    try:
        algs, classes = cell
        styles = [rng.choice(["upper", "lower", "mixed"]) for _ in algs]
        extra = [rng.choice(UNSUPPORTED)] if not algs else []
        claim = build_list(pair.fingerprints(srv), algs, classes, styles, extra, rng)
        desc = {"kind": "eager-server", "client_list": {"algs": list(algs), "classes": list(classes), "styles": styles, "unsupported": extra},
                "server_is_side": srv}
        held = []
        stats = {"coalesced": 0, "records": None}

        def hold(data):
            recs = dtls_records(data)
            if any(t == 20 for t, _ in recs):
                held.append(data)          # the last flight: ChangeCipherSpec + Finished
                return None
            if held and recs and recs[0][0] == 23:
                data = b"".join(held) + data
                stats["coalesced"] += 1
                stats["records"] = dtls_records(data)
                held.clear()
            return data

        pair.ice[srv].mutate = hold
        payload = b"EAGER-" + rng.randbytes(8).hex().encode()

        async def server():
            await pair.t[srv].start(RTCDtlsParameters(fingerprints=pair.fingerprints(cli)))
            if pair.t[srv].state == "connected":
                await pair.t[srv]._send_data(payload)

        async def client():
            await pair.t[cli].start(RTCDtlsParameters(fingerprints=claim))

        try:
            await asyncio.wait_for(asyncio.gather(server(), client()), 10)
        except asyncio.TimeoutError:
            out.inconclusive = "eager-server handshake did not finish within 10 s"
            return
        out.counters["handshakes"] += 1
        await pair.settle()
        if not stats["coalesced"]:
            out.counters["eager_not_coalesced"] += 1
            return
        out.counters["eager_coalesced_datagrams"] += 1
        want = predicate(algs, classes)
        stub = pair.stubs[cli]
        state = pair.t[cli].state
        d = desc | {"client_state": state, "datagram_records": stats["records"], "delivered": [x[:20] for x in stub.data]}
        if stub.early:
            out.fail("delivery-before-connected", f"the client handed over {stub.early[:3]} before it had checked the peer's certificate "
                     f"(application data record in the datagram that completes the handshake); it ended {state}", d)
        if not want and (stub.data or stub.rtp or stub.rtcp):
            out.fail("failed-side-delivers", f"the client's list does not verify the server, yet it delivered {len(stub.data)} data messages", d)
        if state == "connected" and not want:
            out.fail("connected-to-unverified-peer", "the client is 'connected' although its fingerprint list does not verify the peer", d)
        if want and state != "connected":
            out.fail("verified-peer-rejected", f"the list verifies the server, the client is {state}", d)
        out.distinct(("eager", cell, swap_ice))
    finally:
        await pair.close()


def plan(tier):
    if tier == "thorough":
        return dict(cases=4800, shards=16, timeout=3000, min_nontrivial=500, case_alarm=300)
    return dict(cases=160, shards=16, timeout=400, min_nontrivial=150, case_alarm=200)


def run_case(index, rng, tier):
    from vt.rigs.pc import run_async

    out = Batch("C04", "c04", checked_counter="handshakes")
    ncases = plan(tier)["cases"]

    async def go():
        if index % 2 == 0:
            cells = identity_cells()
            k = index // 2
            n_id_cases = ncases // 2
            # side 0 walks the whole matrix across the run; side 1 gets a random cell (mostly correct ones, so that
            # 'verified on both sides' occurs)
            mine = cells[k::n_id_cases]
            reps = 1 if tier == "quick" else 3
            for _ in range(reps):
                for cell in mine:
                    other = rng.choice(cells) if rng.random() < 0.4 else (rng.choice(list(itertools.permutations(SUPPORTED, rng.randint(1, 3)))),) * 1
                    if len(other) == 1:
                        other = (other[0], ("correct",) * len(other[0]))
                    if rng.random() < 0.5:
                        await identity_case(cell, other, rng, out, unsupported=rng.random() < 0.3)
                    else:
                        await identity_case(other, cell, rng, out, unsupported=rng.random() < 0.3)
            out.counters["kind_identity"] += 1
            for cell in rng.sample(cells, 2 if tier == "quick" else 6) + [cells[0]]:
                await eager_case(cell, rng, out, swap_ice=rng.random() < 0.5)
        else:
            cells = key_cells()
            k = index // 2
            n_key_cases = ncases // 2
            for cell in cells[k::n_key_cases]:
                await key_case(*cell, rng, out)
            out.counters["kind_keys"] += 1

    run_async(go(), timeout=280)
    res = out.result()
    res["evals"] = out.counters.get("handshakes", 0)
    return res
