"""C05 - no received datagram can crash, hang or wedge the receive path (three layers, DESIGN 3/C05).

1. wire parsers under a contract: return a value or raise ValueError, within a step budget proportional to the input;
2. a real SCTP association in various states receives hostile datagrams with correct checksum and tag: nothing may
   escape _handle_data, the budget holds, and the association still carries traffic afterwards;
3. a real, connected DTLS transport with real receivers / senders behind it receives raw and authenticated nonsense:
   the transport stays 'connected' and valid traffic sent afterwards still arrives.
"""
import asyncio
import struct

from vt.core.batch import Batch
from vt.core.budget import BudgetExceeded, run_with_budget

ID = "C05"
LEVEL = "exploration"
RULE = ("Parser cases: batches of inputs for parse_packet (valid checksum), decode_params, RE-CONFIG parameter parsers, "
        "RtpPacket.parse (with header-extension maps covering every field), RtcpPacket.parse, unpack_remb_fci, "
        "unpack_header_extensions, HeaderExtensionsMap.get, unwrap_rtx, H264PayloadDescriptor.parse, VpxPayloadDescriptor.parse: "
        "random bytes 0..1500, truncations and bit flips of valid packets, and structure-aware inputs whose lengths and counts "
        "are chosen adversarially (0, 1, 3, header-1, declared > actual, counts 0/1/31/255/65535). Oracle: only ValueError may "
        "escape and the monitored step count (sys.monitoring LINE/JUMP events inside the repository) stays below 60 per input "
        "byte + 4000. SCTP cases: a real association (closed / during the handshake / established idle / with data outstanding / "
        "mid-reset) receives 1-5 hostile datagrams with correct checksum and verification tag (SACK gaps inverted / huge / "
        "overlapping, FORWARD-TSN far ahead, DATA with arbitrary stream, flags and PPID incl. malformed DCEP, INIT bundled or "
        "late, RE-CONFIG with short or unknown parameters, HEARTBEAT with large parameters, unknown chunk types, parameter "
        "lengths 0..3) or datagrams it must reject (bad checksum / tag / length): no exception out of _handle_data, budget "
        "respected, state 'connected' unless the chunk is a teardown, and fresh messages still get through both ways (for "
        "rejected datagrams: no observable change at all). Transport cases: raw datagrams of every first-byte class into a "
        "connected real DTLS transport, and nonsense RTP / RTCP sent by the authenticated peer through its real SRTP session to a "
        "real receiver and sender: transport still 'connected', valid media / RTCP / data afterwards still delivered. "
        "Distinct/non-trivial = distinct (parser or state, outcome class, template) tuples that got past the outer validity "
        "checks."
        " SCTP cases also use well-formed datagrams out of context: verbatim replays of what the peer sent earlier (handshake chunks included), ABORT, RE-CONFIG responses matching the victim's pending request, reset requests for arbitrary streams."
        " The virtual clock may jump 70 s to 25 h before a replay; the peer's own stack may send a DATA chunk without user data on an ordered stream, after which that stream must still deliver.")
ASSUMPTIONS = [
    "work is measured in monitored interpreter steps inside the repository's sources, not in wall-clock time",
    "well-formed hostile chunks that the stack accepts come from a lying peer, which may break its own data: only 'no exception, no hang, still connected, channels still usable for fresh traffic' is required there",
    "third-party parsers (OpenSSL, libsrtp, PyAV) are trusted",
]
DECIDING = ["parser_calls", "sctp_hostile_cases", "transport_cases"]

# hostile chunks that carry no sequence state: after them the association must behave as if nothing had happened
HARMLESS = {"unknown", "heartbeat", "cookie", "data-short", "init", "initack", "declared-length", "peer-empty-message"}
BUDGET_PER_BYTE = 60
BUDGET_BASE = 4000


def guarded(out, name, fn, data, desc, allow=(ValueError,)):
    """Call fn() under the step budget; classify the outcome."""
    out.counters["parser_calls"] += 1
    limit = BUDGET_PER_BYTE * len(data) + BUDGET_BASE
    try:
        _, steps = run_with_budget(fn, limit)
        return "ok"
    except BudgetExceeded as exc:
        out.fail(f"budget@{name}", f"{name}: more than {limit} monitored steps for a {len(data)}-byte input "
                 f"(work out of proportion / endless loop) at {exc.where}", desc | {"input": data[:200].hex()})
        return "budget"
    except allow:
        return "rejected"
    except Exception as exc:
        out.fail(f"{name}-raises", f"{name} raised {type(exc).__name__}: {exc} instead of returning or raising ValueError "
                 f"({len(data)}-byte input)", desc | {"input": data[:200].hex()}, exc)
        return "crash"


# ------------------------------------------------------------------------------------------------ generators


def mutate(rng, data):
    b = bytearray(data)
    op = rng.choice(["trunc", "flip", "extend", "zero-len", "ff-len", "dup-tail"])
    if op == "trunc" and b:
        return bytes(b[:rng.randrange(len(b))]), op
    if op == "flip" and b:
        for _ in range(rng.randint(1, 4)):
            i = rng.randrange(len(b))
            b[i] ^= 1 << rng.randrange(8)
        return bytes(b), op
    if op == "extend":
        return bytes(b) + rng.randbytes(rng.choice([1, 2, 3, 4, 7])), op
    if op in ("zero-len", "ff-len") and len(b) > 4:
        i = rng.randrange(len(b) - 1)
        b[i:i + 2] = b"\x00\x00" if op == "zero-len" else b"\xff\xff"
        return bytes(b), op
    if b:
        return bytes(b) + bytes(b[-rng.randint(1, min(8, len(b))):]), "dup-tail"
    return bytes(b), op


def sctp_wrap(st, body, tag=0, sport=5000, dport=5000, good_crc=True):
    header = struct.pack("!HHL", sport, dport, tag)
    crc = st.crc32c(header + b"\x00\x00\x00\x00" + body) if good_crc else 0x12345678
    return header + struct.pack("<L", crc) + body


def raw_chunk(ctype, flags, body, declared=None, pad=True):
    ln = (len(body) + 4) if declared is None else declared
    data = struct.pack("!BBH", ctype, flags & 0xFF, ln & 0xFFFF) + body
    if pad and len(data) % 4:
        data += b"\x00" * (4 - len(data) % 4)
    return data


def adversarial_params(rng):
    out = b""
    for _ in range(rng.randint(1, 4)):
        val = rng.randbytes(rng.choice([0, 1, 2, 3, 4, 9, 40]))
        ln = rng.choice([0, 1, 2, 3, 4, len(val) + 4, len(val) + 5, len(val) + 40, 0xFFFF])
        out += struct.pack("!HH", rng.choice([1, 7, 13, 16, 17, 0x8008, 0xC000, rng.randrange(65536)]), ln) + val
        if rng.random() < 0.7 and len(out) % 4:
            out += b"\x00" * (4 - len(out) % 4)
    return out


def hostile_sctp_chunk(rng, template=None, base_tsn=None):
    """-> (template name, chunk bytes) with adversarial lengths / counts / values."""
    t = template or rng.choice(["data", "data-short", "sack-counts", "sack-gaps", "fwd", "init", "initack", "params", "reconfig",
                                "heartbeat", "unknown", "declared-length", "shutdown", "cookie", "error", "abort", "dcep", "dcep"])
    u32 = lambda: rng.choice([0, 1, 0x7FFFFFFF, 0x80000000, 0xFFFFFFFF, rng.getrandbits(32)])
    u16 = lambda: rng.choice([0, 1, 0x7FFF, 0xFFFF, rng.getrandbits(16)])
    if t == "data":
        body = struct.pack("!LHHL", u32(), u16(), u16(), rng.choice([50, 51, 53, 56, 57, 0, u32()])) + rng.randbytes(rng.choice([0, 1, 4, 12, 100]))
        return t, raw_chunk(0, rng.randrange(256), body)
    if t == "dcep":
        # complete unordered messages (delivered to the data channel layer at once) with hostile DCEP / string contents
        tsn = (base_tsn + rng.randint(1, 500)) & 0xFFFFFFFF if base_tsn is not None else u32()
        sid = rng.choice([0, 1, 2, 3, 600, u16()])
        kind = rng.choice(["open", "open", "ack", "string", "empty", "other"])
        if kind == "open":
            label = rng.choice([b"\xff\xfe\xfd", b"\xc3", b"ok", rng.randbytes(rng.choice([0, 3, 40]))])
            proto = rng.choice([b"", b"\xff", b"p"])
            ll = rng.choice([len(label), len(label) + 5, 0, 65535])
            pl = rng.choice([len(proto), 0, 65535])
            user = struct.pack("!BBHLHH", 3, rng.choice([0, 1, 2, 0x80, 0x83, 255]), u16(), u32(), ll, pl) + label + proto
            user = user[: rng.choice([len(user), len(user), 12, 11, 5, 1])]
            ppid = 50
        elif kind == "ack":
            user, ppid = bytes([2]) + rng.randbytes(rng.choice([0, 3])), 50
        elif kind == "string":
            user, ppid = rng.choice([b"\xff\xfe", b"\xc3\x28", b"\xed\xa0\x80", rng.randbytes(20)]), rng.choice([51, 51, 53])
        elif kind == "empty":
            user, ppid = b"", rng.choice([50, 51, 53, 56, 57])
        else:
            user, ppid = rng.randbytes(rng.choice([1, 4, 13])), rng.choice([50, 0, 49, 52, 58, u32()])
        body = struct.pack("!LHHL", tsn, sid, u16(), ppid) + user
        return t, raw_chunk(0, 7, body)
    if t == "data-short":
        return t, raw_chunk(0, rng.randrange(8), rng.randbytes(rng.choice([0, 1, 4, 8, 11])))
    if t == "sack-counts":
        ng, nd = rng.choice([0, 1, 5, 300, 65535]), rng.choice([0, 1, 5, 300, 65535])
        body = struct.pack("!LLHH", u32(), u32(), ng, nd) + rng.randbytes(rng.choice([0, 4, 8, 40]))
        return t, raw_chunk(3, 0, body)
    if t == "sack-gaps":
        n = rng.choice([1, 2, 10, 290])
        gaps = b"".join(struct.pack("!HH", *rng.choice([(0, 65535), (65535, 0), (1, 1), (5, 2), (u16(), u16())])) for _ in range(n))
        body = struct.pack("!LLHH", u32(), u32(), n, 0) + gaps
        return t, raw_chunk(3, 0, body)
    if t == "fwd":
        body = struct.pack("!L", u32()) + b"".join(struct.pack("!HH", u16(), u16()) for _ in range(rng.choice([0, 1, 3, 100]))) + rng.randbytes(rng.choice([0, 1, 2, 3]))
        return t, raw_chunk(192, 0, body)
    if t in ("init", "initack"):
        body = struct.pack("!LLHHL", u32(), u32(), u16(), u16(), u32())[: rng.choice([16, 16, 16, 15, 8, 0])] + adversarial_params(rng)
        return t, raw_chunk(1 if t == "init" else 2, 0, body)
    if t == "params":
        return t, raw_chunk(rng.choice([4, 5, 6, 9, 130]), 0, adversarial_params(rng))
    if t == "reconfig":
        ptype = rng.choice([13, 16, 17, 13, 99])
        val = rng.randbytes(rng.choice([0, 1, 4, 7, 8, 11, 12, 13, 14, 30]))
        body = struct.pack("!HH", ptype, len(val) + 4) + val
        return t, raw_chunk(130, 0, body)
    if t == "heartbeat":
        val = rng.randbytes(rng.choice([0, 4, 1000]))
        return t, raw_chunk(rng.choice([4, 5]), 0, struct.pack("!HH", 1, len(val) + 4) + val)
    if t == "unknown":
        return t, raw_chunk(rng.choice([15, 63, 64, 127, 128, 191, 193, 255]), rng.randrange(256), rng.randbytes(rng.choice([0, 1, 8, 100])))
    if t == "declared-length":
        body = rng.randbytes(rng.choice([0, 4, 12, 20]))
        ctype = rng.choice([0, 1, 3, 6, 130, 192])
        # when the parser accepts such a chunk, a DATA / SACK / FORWARD-TSN / RE-CONFIG with random contents is a lie about
        # sequence state like the templates 'data', 'sack-*', 'fwd', 'reconfig': not harmless for the peer's own data
        name = t if ctype == 1 else "declared-length-seq"
        return name, raw_chunk(ctype, 0, body, declared=rng.choice([0, 1, 3, 4, len(body) + 3, len(body) + 5, len(body) + 400, 0xFFFF]), pad=rng.random() < 0.5)
    if t == "shutdown":
        return t, raw_chunk(rng.choice([7, 8, 14]), rng.randrange(2), rng.randbytes(rng.choice([0, 3, 4, 8])))
    if t == "cookie":
        return t, raw_chunk(rng.choice([10, 11]), 0, rng.randbytes(rng.choice([0, 1, 24, 31, 32, 200])))
    if t == "error":
        return t, raw_chunk(9, 0, adversarial_params(rng))
    return t, raw_chunk(6, rng.randrange(2), adversarial_params(rng) if rng.random() < 0.5 else b"")


def hostile_rtp(rng):
    t = rng.choice(["random", "ext-length", "ext-values", "csrc", "padding", "short", "two-byte-ext"])
    if t == "random":
        return t, bytes([0x80 | rng.randrange(64), rng.randrange(128)]) + rng.randbytes(rng.choice([0, 1, 9, 10, 11, 30, 1200]))
    hdr = lambda first, pt=96: bytes([first, pt]) + struct.pack("!HLL", rng.getrandbits(16), rng.getrandbits(32), rng.choice([4242, rng.getrandbits(32)]))
    if t == "short":
        return t, hdr(0x80)[: rng.randrange(12)]
    if t == "csrc":
        cc = rng.choice([1, 15])
        return t, hdr(0x80 | cc) + rng.randbytes(rng.choice([0, 3, 4 * cc - 1, 4 * cc]))
    if t == "padding":
        body = rng.randbytes(rng.choice([0, 1, 5]))
        return t, hdr(0xA0) + body + bytes([rng.choice([0, 1, len(body) + 1, len(body) + 13, 255])])
    if t == "ext-length":
        return t, hdr(0x90) + struct.pack("!HH", rng.choice([0xBEDE, 0x1000, 0, 0xFFFF]), rng.choice([0, 1, 2, 255, 65535])) + rng.randbytes(rng.choice([0, 3, 4, 8]))
    if t == "two-byte-ext":
        items = b"".join(bytes([rng.choice([0, 1, 2, 3, 15, 255]), ln]) + rng.randbytes(rng.choice([ln, max(0, ln - 1), 0])) for ln in [rng.choice([0, 1, 2, 3, 4, 200]) for _ in range(rng.randint(1, 4))])
        items += b"\x00" * (-len(items) % 4)
        return t, hdr(0x90) + struct.pack("!HH", 0x1000, len(items) // 4) + items + rng.randbytes(5)
    # ext-values: one-byte header form, every configured id with a wrong value length
    items = b""
    for _ in range(rng.randint(1, 5)):
        xid = rng.randint(1, 8) if rng.random() < 0.9 else rng.choice([0, 15])
        ln = rng.choice([1, 2, 3, 4, 5, 16])
        items += bytes([(xid << 4) | (ln - 1)]) + rng.choice([rng.randbytes(ln), b"\xff" * ln, b"\x80" * ln])
    items += b"\x00" * (-len(items) % 4)
    return t, hdr(0x90) + struct.pack("!HH", 0xBEDE, len(items) // 4) + items + rng.randbytes(rng.choice([0, 5, 100]))


def hostile_rtcp(rng):
    t = rng.choice(["sr", "rr", "sdes", "bye", "nack", "psfb", "remb", "padding", "length", "compound", "random"])
    pk = lambda pt, count, payload, pad=0: struct.pack("!BBH", 0x80 | (0x20 if pad else 0) | (count & 31), pt, len(payload) // 4) + payload
    w = lambda n: rng.randbytes(4 * n)
    if t == "sr":
        return t, pk(200, rng.choice([0, 1, 5, 31]), w(rng.choice([0, 1, 5, 6, 12, 13])))
    if t == "rr":
        return t, pk(201, rng.choice([0, 1, 5, 31]), w(rng.choice([0, 1, 6, 7, 8])))
    if t == "sdes":
        items = b"".join(bytes([rng.choice([0, 1, 8, 255]), rng.choice([0, 1, 5, 200, 255])]) + rng.randbytes(rng.choice([0, 1, 5])) for _ in range(rng.randint(0, 4)))
        payload = w(1) + items
        payload += b"\x00" * (-len(payload) % 4)
        return t, pk(202, rng.choice([0, 1, 2, 31]), payload)
    if t == "bye":
        return t, pk(203, rng.choice([0, 1, 3, 31]), w(rng.choice([0, 1, 2, 3])))
    if t == "nack":
        return t, pk(205, rng.choice([1, 1, 15, 31]), w(rng.choice([0, 1, 2, 3, 50, 300])))
    if t == "psfb":
        return t, pk(206, rng.choice([1, 4, 15, 2, 3]), w(rng.choice([0, 1, 2, 3, 5])))
    if t == "remb":
        n = rng.choice([0, 1, 2, 255])
        fci = b"REMB" + bytes([n, rng.randrange(256)]) + rng.randbytes(2) + w(rng.choice([0, 1, n, max(0, n - 1)]))
        return t, pk(206, 15, w(2) + fci)
    if t == "padding":
        payload = w(rng.choice([1, 2])) + bytes([0, 0, 0, rng.choice([0, 1, 4, 8, 9, 255])])
        return t, pk(rng.choice([200, 201, 203, 205]), 0, payload, pad=1)
    if t == "length":
        d = bytearray(pk(rng.choice([200, 201, 202, 203, 205, 206]), 1, w(6)))
        d[2:4] = struct.pack("!H", rng.choice([0, 1, 5, 7, 300, 65535]))
        return t, bytes(d)
    if t == "compound":
        return t, b"".join(hostile_rtcp(rng)[1] for _ in range(rng.randint(2, 4)))
    return t, bytes([0x80 | rng.randrange(32), rng.choice([200, 201, 202, 203, 205, 206, 204, 207])]) + rng.randbytes(rng.choice([0, 1, 2, 6, 30]))


def hostile_codec_payload(rng):
    t = rng.choice(["h264-fua", "h264-stap", "h264-other", "vp8", "random"])
    if t == "h264-fua":
        return t, bytes([0x7C & 0xE0 | 28]) + rng.randbytes(rng.choice([0, 1, 2, 50]))
    if t == "h264-stap":
        body = b"".join(struct.pack("!H", rng.choice([0, 1, 5, 65535])) + rng.randbytes(rng.choice([0, 1, 5])) for _ in range(rng.randint(0, 4)))
        return t, bytes([24]) + body + rng.randbytes(rng.choice([0, 1]))
    if t == "h264-other":
        return t, bytes([rng.choice([0, 25, 26, 27, 29, 30, 31, 1, 23]) | (rng.randrange(8) << 5)]) + rng.randbytes(rng.choice([0, 1, 10]))
    if t == "vp8":
        return t, bytes([rng.choice([0x80, 0x90, 0x00, 0x10, 0xFF])]) + bytes([rng.choice([0x80, 0xC0, 0xF0, 0x20, 0x10, 0xFF])] if rng.random() < 0.8 else []) + rng.randbytes(rng.choice([0, 1, 2, 3, 10]))
    return t, rng.randbytes(rng.choice([0, 1, 2, 3, 40]))


# ------------------------------------------------------------------------------------------------ layer 1: parsers


def case_parsers(rng, out):
    import aiortc.rtcsctptransport as st
    from aiortc import rtp
    from aiortc.codecs.h264 import H264PayloadDescriptor
    from aiortc.codecs.vpx import VpxPayloadDescriptor
    from vt.props.c07 import gen_ext_map

    # valid packets to mutate
    valid_sctp = []
    for _ in range(6):
        t, chunk = hostile_sctp_chunk(rng, rng.choice(["data", "sack-gaps", "fwd", "heartbeat"]))
        valid_sctp.append(sctp_wrap(st, chunk, tag=rng.getrandbits(32)))
    for i in range(260):
        kind = rng.choice(["sctp-structured", "sctp-structured", "sctp-mutated", "sctp-random", "params", "reconfig-param",
                           "rtp", "rtp", "rtcp", "rtcp", "remb", "hdrext", "rtx", "codec"])
        desc = {"kind": kind}
        if kind.startswith("sctp"):
            if kind == "sctp-structured":
                tname, chunk = hostile_sctp_chunk(rng)
                n_extra = rng.choice([0, 0, 1, 2])
                body = chunk + b"".join(hostile_sctp_chunk(rng)[1] for _ in range(n_extra))
                data = sctp_wrap(st, body, tag=rng.getrandbits(32))
                desc["template"] = tname
            elif kind == "sctp-mutated":
                base = rng.choice(valid_sctp)
                body, op = mutate(rng, base[12:])
                data = sctp_wrap(st, body, tag=1)
                desc["template"] = "mutated:" + op
            else:
                data = rng.randbytes(rng.choice([0, 1, 11, 12, 15, 16, 20, 100, 1500]))
                if rng.random() < 0.5 and len(data) >= 12:
                    data = sctp_wrap(st, data[12:])
                desc["template"] = "random"
            r = guarded(out, "parse_packet", lambda: st.parse_packet(data), data, desc)
            out.distinct(("parse_packet", r, desc["template"], min(len(data) // 64, 4)))
        elif kind == "params":
            data = adversarial_params(rng) if rng.random() < 0.8 else rng.randbytes(rng.choice([0, 1, 3, 4, 5, 40]))
            r = guarded(out, "decode_params", lambda: st.decode_params(data), data, desc)
            out.distinct(("decode_params", r, len(data) % 4, min(len(data), 8)))
        elif kind == "reconfig-param":
            cls = rng.choice(list(st.RECONFIG_PARAM_TYPES.values()))
            data = rng.randbytes(rng.choice([0, 1, 3, 4, 7, 8, 11, 12, 13, 15, 40]))
            r = guarded(out, cls.__name__ + ".parse", lambda: cls.parse(data), data, desc)
            out.distinct((cls.__name__, r, min(len(data), 16)))
        elif kind == "rtp":
            tname, data = hostile_rtp(rng)
            if rng.random() < 0.2:
                data, op = mutate(rng, data)
                tname += ":" + op
            m, configured, style = gen_ext_map(rng)
            if rng.random() < 0.5:
                m = full_ext_map()
            desc["template"] = tname
            r = guarded(out, "RtpPacket.parse", lambda: rtp.RtpPacket.parse(data, m), data, desc)
            out.distinct(("rtp", r, tname))
        elif kind == "rtcp":
            tname, data = hostile_rtcp(rng)
            if rng.random() < 0.2:
                data, op = mutate(rng, data)
                tname += ":" + op
            desc["template"] = tname
            r = guarded(out, "RtcpPacket.parse", lambda: rtp.RtcpPacket.parse(data), data, desc)
            out.distinct(("rtcp", r, tname))
        elif kind == "remb":
            n = rng.choice([0, 1, 2, 255])
            data = (b"REMB" if rng.random() < 0.8 else rng.randbytes(4)) + bytes([n]) + rng.randbytes(rng.choice([0, 1, 3, 4 * n + 3, 4 * n + 2, 4 * max(0, n - 1) + 3]))
            r = guarded(out, "unpack_remb_fci", lambda: rtp.unpack_remb_fci(data), data, desc)
            out.distinct(("remb", r, n, len(data) < 8))
        elif kind == "hdrext":
            profile = rng.choice([0xBEDE, 0x1000, 0x1001, 0, rng.getrandbits(16)])
            data = hostile_rtp(rng)[1][16:] if rng.random() < 0.5 else rng.randbytes(rng.choice([0, 1, 2, 3, 4, 8, 20]))
            r = guarded(out, "unpack_header_extensions", lambda: rtp.unpack_header_extensions(profile, data), data, desc)
            m = full_ext_map()
            r2 = guarded(out, "HeaderExtensionsMap.get", lambda: m.get(profile, data), data, desc)
            out.distinct(("hdrext", r, r2, profile in (0xBEDE, 0x1000)))
        elif kind == "rtx":
            p = rtp.RtpPacket(payload_type=97, sequence_number=1, timestamp=2, ssrc=3, payload=rng.randbytes(rng.choice([0, 1, 2, 3, 50])))
            data = p.payload
            r = guarded(out, "unwrap_rtx", lambda: rtp.unwrap_rtx(p, payload_type=96, ssrc=4), data, desc)
            out.distinct(("rtx", r, min(len(data), 3)))
        else:
            tname, data = hostile_codec_payload(rng)
            desc["template"] = tname
            r1 = guarded(out, "H264PayloadDescriptor.parse", lambda: H264PayloadDescriptor.parse(data), data, desc)
            r2 = guarded(out, "VpxPayloadDescriptor.parse", lambda: VpxPayloadDescriptor.parse(data), data, desc)
            out.distinct(("codec", tname, r1, r2))
    out.sample({"kind": "parsers", "note": "260 inputs per batch over 14 parser entry points"})


_FULL_MAP = []


def full_ext_map():
    from aiortc.rtcrtpparameters import RTCRtpHeaderExtensionParameters, RTCRtpParameters
    from aiortc.rtp import HeaderExtensionsMap
    from vt.props.c07 import URIS

    if not _FULL_MAP:
        params = RTCRtpParameters()
        params.headerExtensions = [RTCRtpHeaderExtensionParameters(id=i + 1, uri=u) for i, u in enumerate(URIS.values())]
        m = HeaderExtensionsMap()
        m.configure(params)
        _FULL_MAP.append(m)
    return _FULL_MAP[0]


# ------------------------------------------------------------------------------------------------ layer 2: stateful SCTP


def wellformed_out_of_context(rng, st, victim, to_victim, tag_ok):
    """-> (template, first chunk bytes, whole datagram or None): datagrams a real peer could have produced, at the wrong moment -
    verbatim replays of what it sent earlier (handshake chunks included), ABORT, a RE-CONFIG response that matches the victim's
    pending request, a reset request for streams that may or may not exist."""
    kind = rng.choice(["replay", "replay-handshake", "replay-handshake", "abort", "reconfig-response", "reconfig-response", "reconfig-request"])
    sctp = victim.sctp
    if kind in ("replay", "replay-handshake") and to_victim:
        pool = to_victim
        if kind == "replay-handshake":
            pool = [d for d in to_victim if len(d) > 12 and d[12] in (1, 2, 10, 11)] or to_victim
        d = rng.choice(pool)
        return kind, d[12:], d
    if kind == "abort":
        return kind, raw_chunk(6, 0, b""), None
    if kind == "reconfig-response":
        req = getattr(sctp, "_reconfig_request", None)
        seq = req.request_sequence if req is not None else (getattr(sctp, "_reconfig_request_seq", 0) - rng.choice([0, 1])) & 0xFFFFFFFF
        val = struct.pack("!LL", seq, rng.choice([0, 1, 1, 2, 6]))
        return kind, raw_chunk(130, 0, struct.pack("!HH", 16, len(val) + 4) + val), None
    seq = (getattr(sctp, "_reconfig_response_seq", 0) + rng.choice([0, 1, 1, 2])) & 0xFFFFFFFF
    streams = rng.sample([0, 1, 2, 3, 600], rng.randint(0, 3))
    val = struct.pack("!LLL", seq, rng.getrandbits(32), getattr(sctp, "_last_received_tsn", 0) or 0) + b"".join(struct.pack("!H", x) for x in streams)
    return "reconfig-request", raw_chunk(130, 0, struct.pack("!HH", 13, len(val) + 4) + val), None


def case_sctp(rng, out, index):
    from vt.rigs.sctp import SctpRig

    state = rng.choice(["established-idle", "established-idle", "data-outstanding", "handshake", "before-start", "mid-reset", "mid-reset-either"])
    reject = rng.random() < 0.25
    desc = {"kind": "sctp", "state": state, "must_be_rejected": reject}
    rig = SctpRig(rng, heal=0.0, spec_ab={"latency": 0.02}, spec_ba={"latency": 0.02})
    try:
        st = rig.st
        A, B = rig.A, rig.B
        captured = {"A>B": [], "B>A": []}
        rig.link_ab.taps.append(lambda ev, n, data, kind, delays: captured["A>B"].append(bytes(data)) if ev == "tx" else None)
        rig.link_ba.taps.append(lambda ev, n, data, kind, delays: captured["B>A"].append(bytes(data)) if ev == "tx" else None)
        chans = [rig.create_channel(A, "c0"), rig.create_channel(B, "c1", ordered=False)]
        if state != "before-start":
            rig.start(A)
            rig.start(B)
        if state == "handshake":
            rig.run_until(0.021)  # INIT delivered, cookie exchange in flight
        elif state != "before-start":
            rig.run_until(1.0)
        if state == "data-outstanding":
            for _ in range(3):
                rig.send(A, chans[0], 5000, False)
                rig.send(B, chans[1], 3000, True)
            rig.run_until(1.005)
        if state == "mid-reset" and chans[0].obj.get("A") is not None:
            rig.close_channel(A, chans[0])
            rig.run_until(1.005)
        if state == "mid-reset-either":
            closer = rng.choice([A, B])
            ch = chans[0] if closer is A else chans[1]
            if ch.obj.get(closer.name) is not None:
                rig.close_channel(closer, ch)
                rig.run_until(1.005)
        victim = rng.choice([A, B])
        peer = rig.other(victim)
        tag_ok = getattr(victim.sctp, "_local_verification_tag", 0)
        # well-formed datagrams out of context: everything the peer really sent to the victim so far may be replayed verbatim
        to_victim = captured["B>A" if victim is A else "A>B"]
        focused = state.startswith("mid-reset") or rng.random() < 0.3
        templates = []
        empty_on_c0 = False
        only_empty = focused and rng.random() < 0.2  # nothing but empty messages: the stream probe below always runs
        before = None
        n_dgrams = rng.randint(2, 7) if focused else rng.randint(1, 5)
        teardown = False
        for _ in range(n_dgrams):
            base_tsn = getattr(victim.sctp, "_last_received_tsn", None)
            whole = None
            if focused and rng.random() < 0.3:
                # a long-lived association: replays may be hours old (virtual clock; nothing happens in between)
                rig.run_until(rig.now() + rng.choice([70.0, 4400.0, 9000.0, 90000.0]))
            if focused and not reject and state in ("established-idle", "data-outstanding") and (only_empty or rng.random() < 0.1) \
                    and chans[0].obj.get(peer.name) is not None and chans[0].obj[peer.name].readyState == "open":
                # a well-formed message with no user data at all, sent by the peer's own stack on an ordered stream (a foreign
                # stack may do that; aiortc itself encodes empty messages with a placeholder byte): the stream must go on
                templates.append("peer-empty-message")
                out.counters["peer_empty_messages"] += 1
                sid = chans[0].obj[peer.name].id
                ps = peer.sctp
                if ps._outbound_queue or ps._sent_queue or getattr(ps, "_data_channel_queue", None):
                    templates[-1] = "peer-empty-message-skipped-busy"
                    continue
                # built with the peer's own next TSN and stream sequence number, which are advanced as its _send would
                chunk = st.DataChunk(flags=3)
                chunk.tsn = ps._local_tsn
                chunk.stream_id = sid
                chunk.stream_seq = ps._outbound_stream_seq.get(sid, 0)
                chunk.protocol = rng.choice([51, 53])
                chunk.user_data = b""
                ps._local_tsn = (ps._local_tsn + 1) % (1 << 32)
                ps._outbound_stream_seq[sid] = (chunk.stream_seq + 1) % 65536
                t = rig.loop.create_task(ps._send_chunk(chunk))
                rig.run_until(rig.now() + 1.0)
                empty_on_c0 = True
                continue
            if focused and not reject:
                tname, chunk, whole = wellformed_out_of_context(rng, st, victim, to_victim, tag_ok)
            else:
                tname, chunk = hostile_sctp_chunk(rng, base_tsn=base_tsn)
            templates.append(tname)
            extra = b""
            if whole is None and rng.random() < 0.25:
                tname2, extra = hostile_sctp_chunk(rng, base_tsn=base_tsn)
                templates.append(tname2)
            body = chunk + extra
            if reject:
                how = rng.choice(["crc", "tag", "short", "tag-zero-noninit"])
                if how == "crc":
                    data = sctp_wrap(st, body, tag=tag_ok, good_crc=False)
                elif how == "tag":
                    data = sctp_wrap(st, raw_chunk(0, 3, struct.pack("!LHHL", rng.getrandbits(32), 1, 0, 51) + b"x"), tag=(tag_ok ^ 0x5A5A5A5A) or 1)
                elif how == "tag-zero-noninit":
                    data = sctp_wrap(st, raw_chunk(3, 0, struct.pack("!LLHH", rng.getrandbits(32), 1000, 0, 0)), tag=0)
                else:
                    data = sctp_wrap(st, body, tag=tag_ok)[: rng.choice([0, 1, 11, 12, 15])]
                templates[-1] = "reject:" + how
            else:
                data = whole if whole is not None else sctp_wrap(st, body, tag=tag_ok if not chunk[0] == 1 else 0)
                if chunk[0] in (6, 7, 8, 14) or (extra and extra[0] in (6, 7, 8, 14)) or (chunk[0] == 9 and state == "handshake"):
                    teardown = True
            if victim.dtls.receiver is None:
                break
            out.counters["sctp_hostile_datagrams"] += 1
            limit = BUDGET_PER_BYTE * len(data) + 40000

            def deliver(data=data):
                task = rig.loop.create_task(victim.dtls.receiver._handle_data(data))
                for _ in range(200):
                    if task.done():
                        break
                    rig.loop.run_until_idle(rig.loop.time())
                if not task.done():
                    task.cancel()
                    rig.loop.run_until_idle(rig.loop.time())
                    return "pending"
                if task.exception() is not None:
                    raise task.exception()
                return "done"

            try:
                run_with_budget(deliver, limit)
            except BudgetExceeded as exc:
                out.fail("budget@_handle_data:" + templates[-1].split(":")[0], f"_handle_data: more than {limit} monitored steps for a {len(data)}-byte datagram "
                         f"({templates[-1]}, state {state}) at {exc.where}", desc | {"datagram": data[:160].hex(), "templates": templates})
                return
            except Exception as exc:
                out.fail("handle-data-raises", f"{type(exc).__name__}: {exc} escaped _handle_data ({templates[-1]}, state {state}); in production "
                         "this closes the DTLS transport", desc | {"datagram": data[:160].hex(), "templates": templates}, exc)
                return
        out.counters["sctp_hostile_cases"] += 1
        desc["templates"] = templates
        rig.run_until(rig.now() + 3.0)
        for te in rig.task_exceptions:
            if te["type"] not in (None, "CancelledError", "ConnectionError"):
                out.fail("task-raises", f"a background task failed after the hostile datagrams: {te['type']} at {te['where']}: {te['repr']}", desc)
        if state in ("before-start", "handshake") or teardown:
            out.distinct(("sctp", state, tuple(sorted(set(templates))), "no-probe"))
            return
        # the association must still be usable: fresh traffic both ways on fresh channels (a lying peer may have broken
        # the data it was lying about, but not the association)
        if A.sctp.state != "connected" or B.sctp.state != "connected":
            out.fail("association-ended", f"after {templates} in state {state}: A={A.sctp.state} B={B.sctp.state} (no teardown chunk was sent)", desc)
            return
        if reject:
            rig.drain(extra=60.0)
            rig.check_quiescent_delivery("after-rejected-datagrams")
            if rig.probe():
                rig.drain(extra=120.0)
                rig.check_quiescent_delivery("probe-after-rejected-datagrams")
            bad = [v for v in rig.violations if v["cat"] in ("stall", "delivery", "livelock", "exception")]
            if bad:
                out.fail("rejected-datagram-changed-behaviour", f"datagrams that must be ignored ({templates}) disturbed the association: {bad[0]['what'][:200]}", desc)
        elif not set(templates) <= HARMLESS:
            # the peer lied about sequence state (forged TSNs, SACKs, resets...): it may have broken its own data
            out.counters["probe_skipped_peer_lied"] += 1
        else:
            if empty_on_c0:
                # the ordered channel that carried the empty message still delivers what follows it
                c0 = chans[0]
                n0 = {n: len(f.delivered) for n, f in c0.flows.items()}
                ok0 = rig.send(peer, c0, 300, False)
                rig.run_until(rig.now() + 30.0)
                if ok0 and not any(len(f.delivered) > n0[n] for n, f in c0.flows.items()):
                    out.fail("stream-wedged-by-empty-message", f"after a DATA chunk without user data on ordered stream {c0.obj[peer.name].id} "
                             f"(sent by the peer's own stack) a following message is never delivered", desc | {"diag": str(rig.diagnostics())[:600]})
            fresh = rig.create_channel(peer, "fresh", negotiated_id=600)
            rig.create_channel(victim, "fresh", negotiated_id=600)
            rig.run_until(rig.now() + 0.5)
            ok1 = rig.send(peer, fresh, 3000, False)
            ok2 = rig.send(victim, fresh, 40, True)
            rig.run_until(rig.now() + 30.0)
            got = {n: len(f.delivered) for n, f in fresh.flows.items()}
            if not (ok1 and ok2) or any(len(f.delivered) != len(f.sent) for f in fresh.flows.values()):
                out.fail("association-wedged", f"after accepted hostile chunks {templates} (state {state}) a fresh channel does not carry messages both ways: "
                         f"sent ok={ok1, ok2}, delivered {got}", desc | {"diag": str(rig.diagnostics())[:600]})
        out.distinct(("sctp", state, tuple(sorted(set(templates))), reject))
        if out.want_sample():
            out.sample(desc)
    finally:
        rig.close()


# ------------------------------------------------------------------------------------------------ layer 3: behind a real DTLS transport


async def transport_case(rng, out):
    import aiortc.rtcrtpreceiver as rr
    from aiortc.rtcrtpparameters import (RTCRtpCodecParameters, RTCRtpDecodingParameters, RTCRtpHeaderExtensionParameters,
                                         RTCRtpReceiveParameters, RTCRtpRtxParameters, RTCRtpSendParameters, RTCRtcpFeedback)
    from aiortc.rtcrtpreceiver import RemoteStreamTrack, RTCRtpReceiver
    from aiortc.rtcrtpsender import RTCRtpSender
    from aiortc import rtp
    from vt.rigs.dtls import DtlsPair
    from vt.rigs.media import NoThread, TapQueue
    import types

    decoded = []
    saved = (rr.queue, rr.threading)
    rr.queue = types.SimpleNamespace(Queue=TapQueue, Empty=saved[0].Empty)
    rr.threading = types.SimpleNamespace(Thread=NoThread)
    TapQueue.sink = decoded.append
    pair = DtlsPair()
    desc = {"kind": "transport"}
    try:
        await pair.start(pair.fingerprints(1), pair.fingerprints(0))
        victim = pair.t[1]
        fb = [RTCRtcpFeedback(type="nack"), RTCRtcpFeedback(type="nack", parameter="pli"), RTCRtcpFeedback(type="goog-remb")]
        codecs = [RTCRtpCodecParameters(mimeType="video/" + rng.choice(["VP8", "H264"]), clockRate=90000, payloadType=98, rtcpFeedback=fb),
                  RTCRtpCodecParameters(mimeType="video/rtx", clockRate=90000, payloadType=99, parameters={"apt": 98})]
        from vt.props.c07 import URIS
        exts = [RTCRtpHeaderExtensionParameters(id=i + 1, uri=u) for i, u in enumerate(URIS.values())]
        receiver = RTCRtpReceiver("video", victim)
        receiver._track = RemoteStreamTrack(kind="video")
        receiver._set_rtcp_ssrc(77)
        await receiver.receive(RTCRtpReceiveParameters(codecs=codecs, headerExtensions=exts, muxId="0", encodings=[
            RTCRtpDecodingParameters(ssrc=5000, payloadType=98, rtx=RTCRtpRtxParameters(ssrc=5001))]))
        sender = RTCRtpSender("video", victim)
        sp = RTCRtpSendParameters(codecs=codecs, headerExtensions=exts, muxId="0")
        sp.rtcp.cname = "x"
        await sender.send(sp)
        attacker = pair.t[0]
        sent_templates = []
        for _ in range(rng.randint(3, 12)):
            mode = rng.choice(["raw", "raw", "rtp", "rtp", "rtcp", "rtcp", "rtcp-to-sender", "ssrc-flood"])
            if mode == "raw":
                first = rng.choice([None, 0, 1, 19, 20, 22, 23, 63, 64, 100, 127, 128, 144, 191, 192, 200, 255])
                data = b"" if first is None else bytes([first]) + rng.randbytes(rng.choice([0, 1, 2, 11, 12, 50, 1200]))
                await pair.ice[1].rx.put(data)
                sent_templates.append(f"raw:{first}")
            elif mode == "rtp":
                tname, data = hostile_rtp(rng)
                if rng.random() < 0.6 and len(data) >= 12:
                    d = bytearray(data)
                    d[1] = (d[1] & 0x80) | rng.choice([98, 99, 98, 0, 127])
                    d[8:12] = struct.pack("!L", rng.choice([5000, 5001, 5000, rng.getrandbits(32)]))
                    if rng.random() < 0.5:
                        _, payload = hostile_codec_payload(rng)
                        d = d[:12] + payload if not (d[0] & 0x1F) else d
                    data = bytes(d)
                try:
                    await attacker._send_rtp(data)
                    sent_templates.append("rtp:" + tname)
                except Exception:
                    sent_templates.append("rtp-unsendable")
            elif mode in ("rtcp", "rtcp-to-sender"):
                tname, data = hostile_rtcp(rng)
                if mode == "rtcp-to-sender" and len(data) >= 12:
                    d = bytearray(data)
                    d[8:12] = struct.pack("!L", sender._ssrc)
                    data = bytes(d)
                try:
                    await attacker._send_rtp(data)
                    sent_templates.append("rtcp:" + tname)
                except Exception:
                    sent_templates.append("rtcp-unsendable")
            else:
                for k in range(rng.choice([50, 300])):
                    p = rtp.RtpPacket(payload_type=98, sequence_number=k, timestamp=k * 3000, ssrc=10_000 + k, payload=b"\x10" + bytes(5))
                    p.extensions.abs_send_time = k
                    await attacker._send_rtp(p.serialize(attacker._rtp_header_extensions_map))
                sent_templates.append("ssrc-flood")
            await asyncio.sleep(0)
        await pair.settle()
        out.counters["transport_cases"] += 1
        out.counters["transport_hostile_datagrams"] += len(sent_templates)
        desc["templates"] = sent_templates
        if victim.state != "connected":
            out.fail("transport-closed", f"the DTLS transport is '{victim.state}' after {sent_templates}: a receive handler let an exception escape", desc)
            return
        # valid traffic afterwards: media reaches the decoder tap, RTCP reaches the receiver, data reaches the data receiver
        n0 = len(decoded)
        ts0 = rng.getrandbits(31)
        seq0 = rng.randrange(65536)
        fresh_ssrc = 600000 + rng.randrange(1000)  # a fresh stream (the sending SRTP session refuses old indices of a used SSRC)
        # the jitter buffer legitimately ignores packets up to 100 positions behind where the hostile packets left it:
        # a stream of 130 frames is long enough to get past that in every case
        for f in range(130):
            for k in range(2):
                payload = (b"\x10" if k == 0 else b"\x00") + f"frame{f}-{k}".encode() if codecs[0].name == "VP8" else bytes([0x65]) + f"frame{f}-{k}".encode()
                p = rtp.RtpPacket(payload_type=98, sequence_number=(seq0 + 2 * f + k) & 0xFFFF, timestamp=(ts0 + 3000 * f) & 0xFFFFFFFF, ssrc=fresh_ssrc,
                                  payload=payload, marker=k)
                await attacker._send_rtp(p.serialize(attacker._rtp_header_extensions_map))
            if f % 10 == 9:
                await asyncio.sleep(0)
        await attacker._send_data(b"still-alive")
        await pair.settle()
        if victim.state != "connected":
            out.fail("transport-closed", f"the DTLS transport is '{victim.state}' after valid traffic that followed {sent_templates}", desc)
            return
        if pair.stubs[1].data[-1:] != [b"still-alive"]:
            out.fail("data-not-delivered-afterwards", f"a data message sent after {sent_templates} did not reach the data receiver", desc)
        if len(decoded) - n0 < 10:
            out.fail("media-not-delivered-afterwards", f"130 valid frames sent after {sent_templates}: {len(decoded) - n0} reached the decoder", desc)
        out.distinct(("transport", tuple(sorted(set(sent_templates)))))
        if out.want_sample():
            out.sample(desc)
    finally:
        try:
            await asyncio.wait_for(receiver.stop(), 3)
            await asyncio.wait_for(sender.stop(), 3)
        except Exception:
            pass
        await pair.close()
        rr.queue, rr.threading = saved
        TapQueue.sink = None


def plan(tier):
    if tier == "thorough":
        return dict(cases=16000, shards=16, timeout=3400, min_nontrivial=1500, case_alarm=40, case_steps=30_000_000)
    return dict(cases=640, shards=16, timeout=500, min_nontrivial=300, case_alarm=25, case_steps=30_000_000)


def run_case(index, rng, tier):
    from vt.rigs.pc import run_async

    out = Batch("C05", "c05", checked_counter="parser_calls")
    k = index % 4
    if k in (0, 1):
        case_parsers(rng, out)
        out.counters["kind_parsers"] += 1
    elif k == 2:
        for _ in range(8):
            case_sctp(rng, out, index)
        out.counters["kind_sctp"] += 1
    else:
        async def go():
            for _ in range(6):
                await transport_case(rng, out)
        try:
            run_async(go(), timeout=100)
        except asyncio.TimeoutError:
            out.inconclusive = "transport cases exceeded 100 s"
        out.counters["kind_transport"] += 1
    res = out.result()
    res["evals"] = out.counters.get("parser_calls", 0) + out.counters.get("sctp_hostile_datagrams", 0) + out.counters.get("transport_hostile_datagrams", 0)
    return res
