"""C02 - data channel traffic always drains (rig R-SCTP, DESIGN 3/C02).

Liveness restated as bounded progress: after the fault prefix ends the loop must become
quiescent (decided on loop state, not on a deadline) with everything reliable delivered,
bufferedAmount 0 everywhere, and a follow-up probe burst larger than the congestion window
must get through.  Endless retransmission of one TSN after heal = livelock (counted).
"""
from vt.rigs.sctp_workload import gen_program, run_program, summarize_prog

ID = "C02"
LEVEL = "exploration"
RULE = ("Each case = one generated program on 1-6 reliable channels (both directions, bursts larger than cwnd, several "
        "streams interleaved) under a heavy seeded fault prefix (30-60% loss, outages long enough for T3 while gap-acks "
        "exist, SACK-only loss, duplicated SACKs, jitter), then a fault-free suffix. Oracle at loop quiescence: all "
        "accepted reliable messages delivered, bufferedAmount==0, then a probe burst (12 fragments + 1 small message per "
        "open channel and direction) must be delivered and quiescence reached again; livelock = same TSN handed to the "
        "healed link >=25 times. Non-trivial = >=1 T3-driven retransmission after >=1 gap-ack SACK and >=2 streams "
        "interleaved on the wire; distinct = fault-decision fingerprint.")
ASSUMPTIONS = [
    "DTLS transport replaced by a duck-typed stand-in whose send never suspends; virtual clock",
    "quiescence = no ready callback and no live timer on the loop (harness timers included)",
    "an association whose endpoint raised out of _handle_data is reported under key exception (it is wedged while still reporting connected)",
]
DECIDING = ["quiescence_checks", "probes"]
CATS = ("stall", "livelock", "exception")


def classify(v):
    """Name the mechanism from the diagnostics (keys are mechanisms, DESIGN 4.1)."""
    if v["cat"] == "exception":
        return "exception:" + str(v["key"])
    d = v.get("diagnostics") or {}
    for name, e in d.items():
        if e.get("sent_queue") == 0 and (e.get("outbound_queue") or e.get("dc_queue")) and \
                (e.get("flight_size") or 0) >= (e.get("cwnd") or 1) and not e.get("t3"):
            return "phantom-flight"
    for name, e in d.items():
        if e.get("cumtsn_regress") and e.get("init_after_connected"):
            return "init-after-established"
    for name, e in d.items():
        for sid, chunks in (e.get("reassembly") or {}).items():
            if chunks and chunks[0][1] & 2:
                return "reassembly-left-behind"
    return v["cat"] + "-unclassified"


def plan(tier):
    if tier == "thorough":
        return dict(cases=128000, shards=16, timeout=3400, min_nontrivial=12000)
    return dict(cases=2560, shards=16, timeout=400, min_nontrivial=240)


def run_case(index, rng, tier):
    relay = (index % 10 == 9)
    long = (index % 40 == 3) if tier == "thorough" else (index % 160 == 3)
    mode = "mixed" if index % 5 == 2 else "reliable"  # reliable channels next to partially reliable ones
    prog = gen_program(rng, mode=mode, heavy=(index % 4 != 0), long=long)
    r = run_program(prog, rng, relay=relay)
    c = dict(r["counters"])
    w = r["wire"]
    for k in ("drop_data", "tx_rtx", "rx_data_out_of_order", "tx_sack_with_gaps", "tx_sack_with_dups", "drop_sack"):
        c["wire_" + k] = w.get(k, 0)
    c["drain_" + r["drain"]] = 1
    c["mixed_reliability_cases"] = 1 if mode == "mixed" else 0
    if r.get("drain2"):
        c["drain2_" + r["drain2"]] = 1
    viol = []
    for v in r["violations"]:
        if v["cat"] in CATS:
            viol.append({"key": "C02/" + classify(v), "what": v["what"],
                         "witness": {"v": v, "prog": summarize_prog(prog), "specs": r["specs"], "tsn_origins": r.get("origins"), "relay": relay,
                                     "events_tail": r["events_tail"][-25:]}})
    inconclusive = None
    if r["drain"] == "slow" or r.get("drain2") == "slow":
        inconclusive = "inconclusive-slow: neither quiescent nor livelocked within the virtual-time bound"
    if r["states"]["A"] != "connected" or r["states"]["B"] != "connected":
        c["association_ended"] = 1
    streams = len(prog["chans"])
    nontrivial = (w.get("tx_rtx", 0) >= 1 and w.get("tx_sack_with_gaps", 0) >= 1 and streams >= 2
                  and c.get("quiescence_checks", 0) >= 1)
    return dict(hash=r["fingerprint"], nontrivial=nontrivial, counters=c, violations=viol, inconclusive=inconclusive,
                evals=1 + c.get("probes", 0),
                sample={"prog": summarize_prog(prog), "specs": r["specs"], "drain": r["drain"], "drain2": r.get("drain2"),
                        "link": r["link"]})
