"""C06 - partially reliable channels drop only whole messages and never disturb others (rig R-SCTP)."""
from vt.rigs.sctp_workload import gen_program, run_program, summarize_prog
from vt.props.c02 import classify as classify_stall

ID = "C06"
LEVEL = "exploration"
RULE = ("Each case = a generated program on 2-6 channels of one association mixing reliable and partially reliable "
        "channels (ordered/unordered x maxRetransmits 0/1/3 x maxPacketLifeTime 1/50/500/5000 ms on the virtual clock), "
        "messages up to 40 fragments (> cwnd), under a seeded fault prefix, then heal, drain to quiescence, then a probe "
        "phase (12-fragment + small message on every open channel, both directions) and drain again. Oracles: every PR "
        "delivery is an exact duplicate-free copy of a sent message, in send order on ordered channels; reliable channels "
        "of the same association get the full C01+C02 oracle; every probe message must arrive on PR channels too. "
        "Non-trivial = >=1 FORWARD-TSN on the wire and >=1 PR message really dropped and >=1 reliable channel carrying "
        "traffic; distinct = fault fingerprint.")
ASSUMPTIONS = [
    "same rig assumptions as C01 (non-suspending DTLS stand-in, virtual clock)",
    "post-heal obligation is taken after the first quiescence: a retransmission time-out caused by earlier loss may legitimately abandon a PR message sent right after heal",
]
DECIDING = ["messages_checked", "pr_postheal_checks", "wire_tx_fwd"]
CATS = ("pr-delivery", "pr-postheal", "delivery", "stall", "livelock", "exception")


def plan(tier):
    if tier == "thorough":
        return dict(cases=128000, shards=16, timeout=3400, min_nontrivial=12000)
    return dict(cases=2560, shards=16, timeout=400, min_nontrivial=240)


def run_case(index, rng, tier):
    relay = (index % 10 == 9)
    prog = gen_program(rng, mode="mixed", heavy=(index % 2 == 0))
    r = run_program(prog, rng, relay=relay)
    c = dict(r["counters"])
    w = r["wire"]
    for k in ("drop_data", "tx_rtx", "tx_fwd", "drop_fwd", "tx_sack_with_gaps"):
        c["wire_" + k] = w.get(k, 0)
    viol = []
    for v in r["violations"]:
        if v["cat"] in CATS:
            key = v["key"] if v["cat"] in ("pr-delivery", "delivery") else classify_stall(v)
            viol.append({"key": f"C06/{v['cat']}/{key}", "what": v["what"],
                         "witness": {"v": v, "prog": summarize_prog(prog), "specs": r["specs"], "tsn_origins": r.get("origins"), "relay": relay,
                                     "events_tail": r["events_tail"][-25:]}})
    inconclusive = None
    if r["drain"] == "slow" or r.get("drain2") == "slow":
        inconclusive = "inconclusive-slow"
    pr_dropped = c.get("sends", 0) - c.get("messages_checked", 0)
    c["pr_messages_dropped"] = max(0, pr_dropped)
    has_rel = any(ch["maxRetransmits"] is None and ch["maxPacketLifeTime"] is None for ch in prog["chans"])
    nontrivial = w.get("tx_fwd", 0) >= 1 and pr_dropped >= 1 and has_rel
    return dict(hash=r["fingerprint"], nontrivial=nontrivial, counters=c, violations=viol, inconclusive=inconclusive,
                evals=c.get("messages_checked", 0),
                sample={"prog": summarize_prog(prog), "specs": r["specs"], "drain": r["drain"], "link": r["link"],
                        "fwd_on_wire": w.get("tx_fwd", 0), "pr_dropped": pr_dropped})
