"""C08 - SCTP packets round-trip exactly; packets corrupted by a bit burst are rejected by the checksum (Pure)."""
import copy
import collections

from vt.core.batch import Batch
from vt.core.budget import CaseTimeout, alarm, confirm_hang

ID = "C08"
LEVEL = "exploration"
RULE = ("Round-trip cases: batches of 300 generated chunks of every class (DATA with any flags and user data 1..1200 plus a "
        "few up to 65519 bytes in all four length residues; INIT/INIT-ACK/HEARTBEAT/-ACK/ABORT/ERROR/RE-CONFIG parameter "
        "lists with value lengths 0..40 in every residue incl. a trailing empty parameter; SACK 0-300 gaps and duplicates; "
        "FORWARD-TSN 0-200 streams; RE-CONFIG params of each class with 0-135 streams; COOKIE-ECHO bodies of any length; "
        "SHUTDOWN*; ports/tags/TSNs at boundaries) -> serialize_packet -> parse_packet: one chunk, same class, equal fields, "
        "identical bytes when re-serialised, length a multiple of 4, declared chunk length without padding. Burst cases: a "
        "serialised packet is XORed with a burst (first and last bit set, length 1..32) at every bit position x every "
        "length x several interiors (quick) / 16 interiors (thorough); short packets additionally get ALL interiors for "
        "lengths <= 8 (quick) / <= 12 (thorough). parse_packet must raise ValueError('...checksum') and no chunk "
        "constructor may run (counting wrappers in CHUNK_TYPES). Non-trivial/distinct = distinct (class, residue, size class) "
        "for round trips and distinct (packet, position, length, interior) bursts."
        " Also: bursts aimed at the checksum field itself; a chunk serialised once, given new field values and serialised again must equal a fresh chunk; 'transport' cases run lossy mixed-reliability SCTP programs and compare the public fields of every chunk handed to RTCSctpTransport._send_chunk with what the datagram on the link parses back to.")
ASSUMPTIONS = [
    "google-crc32c trusted to compute CRC-32c; the monitor checks the implementation around it (byte order, zeroed field, coverage)",
    "field values are generated inside their wire ranges",
    "the full space (all packets x all bursts) is out of reach of any runtime technique: positions and lengths are enumerated on sampled packets, interiors sampled except for short bursts",
]
DECIDING = ["roundtrips_checked", "bursts_checked"]
EXPLANATION = ("exhaustive only for the sub-space: every bit position x every burst length <= 8 (quick) or <= 12 (thorough) x every "
               "interior pattern, on the short packets of the 'burst-exhaustive' cases")

U32 = [0, 1, 2, 0x7FFFFFFF, 0x80000000, 0xFFFFFFFE, 0xFFFFFFFF]
U16 = [0, 1, 255, 256, 0x7FFF, 0x8000, 0xFFFE, 0xFFFF]

_counting = {"n": 0}


def setup(tier):
    """Counting wrappers around the chunk constructors that parse_packet looks up in CHUNK_TYPES."""
    import aiortc.rtcsctptransport as st

    if getattr(st, "_vt_counting", False):
        return
    for t, cls in list(st.CHUNK_TYPES.items()):
        def factory(flags=0, body=None, _cls=cls):
            _counting["n"] += 1
            return _cls(flags=flags, body=body)
        factory.__name__ = cls.__name__
        st.CHUNK_TYPES[t] = factory
    st._vt_counting = True


def u32(rng):
    return rng.choice(U32) if rng.random() < 0.4 else rng.randrange(1 << 32)


def u16(rng):
    return rng.choice(U16) if rng.random() < 0.4 else rng.randrange(1 << 16)


def gen_params(rng):
    n = rng.choice([0, 1, 1, 2, 3, 8])
    params = []
    for i in range(n):
        ln = rng.choice([0, 1, 2, 3, 4, 5, 6, 7, 8, 40, rng.randint(0, 40)])
        params.append((u16(rng), rng.randbytes(ln)))
    if params and rng.random() < 0.3:
        params[-1] = (params[-1][0], b"")  # trailing empty parameter
    return params


def gen_chunk(rng, st, small=False):
    kind = rng.choice(["data", "data", "init", "initack", "sack", "sack", "heartbeat", "heartbeatack", "abort", "error",
                       "cookieecho", "cookieack", "shutdown", "shutdownack", "shutdowncomplete", "reconfig", "fwd"])
    flags = rng.choice([0, 1, 2, 3, 4, 7, 255, rng.randrange(256)])
    if kind == "data":
        c = st.DataChunk(flags=flags)
        c.tsn, c.stream_id, c.stream_seq, c.protocol = u32(rng), u16(rng), u16(rng), u32(rng)
        r = rng.random()
        if small:
            n = rng.randint(1, 24)
        elif r < 0.5:
            n = rng.randint(1, 1200)
        elif r < 0.9:
            n = rng.choice([1, 2, 3, 4, 5, 1197, 1198, 1199, 1200])
        else:
            n = rng.choice([65519, 65518, 65517, 65516, 20000])
        c.user_data = rng.randbytes(n)
        fields = ("tsn", "stream_id", "stream_seq", "protocol", "user_data")
        cls = ("data", n % 4, "big" if n > 1200 else "std")
    elif kind in ("init", "initack"):
        c = (st.InitChunk if kind == "init" else st.InitAckChunk)(flags=flags)
        c.initiate_tag, c.advertised_rwnd, c.initial_tsn = u32(rng), u32(rng), u32(rng)
        c.outbound_streams, c.inbound_streams = u16(rng), u16(rng)
        c.params = gen_params(rng)
        fields = ("initiate_tag", "advertised_rwnd", "outbound_streams", "inbound_streams", "initial_tsn", "params")
        cls = (kind, tuple((len(v) % 4) for _, v in c.params[:3]), bool(c.params) and c.params[-1][1] == b"")
    elif kind == "sack":
        c = st.SackChunk(flags=flags)
        c.cumulative_tsn, c.advertised_rwnd = u32(rng), u32(rng)
        ng = rng.choice([0, 1, 2, 16, 300, rng.randint(0, 300)]) if not small else rng.randint(0, 3)
        nd = rng.choice([0, 1, 2, 300, rng.randint(0, 300)]) if not small else rng.randint(0, 3)
        c.gaps = [(u16(rng), u16(rng)) for _ in range(ng)]
        c.duplicates = [u32(rng) for _ in range(nd)]
        fields = ("cumulative_tsn", "advertised_rwnd", "gaps", "duplicates")
        cls = ("sack", min(ng, 3), min(nd, 3))
    elif kind in ("heartbeat", "heartbeatack", "abort", "error", "reconfig"):
        k = {"heartbeat": st.HeartbeatChunk, "heartbeatack": st.HeartbeatAckChunk, "abort": st.AbortChunk,
             "error": st.ErrorChunk, "reconfig": st.ReconfigChunk}[kind]
        c = k(flags=flags)
        if kind == "reconfig" and rng.random() < 0.7:
            c.params = [gen_reconfig_param(rng, st, small)]
        else:
            c.params = gen_params(rng)
        fields = ("params",)
        cls = (kind, tuple((len(v) % 4) for _, v in c.params[:3]), bool(c.params) and c.params[-1][1] == b"")
    elif kind == "cookieecho":
        c = st.CookieEchoChunk(flags=flags)
        c.body = rng.randbytes(rng.choice([0, 1, 2, 3, 4, 24, 25, rng.randint(0, 300 if not small else 20)]))
        fields = ("body",)
        cls = (kind, len(c.body) % 4, len(c.body) == 0)
    elif kind in ("cookieack", "shutdownack", "shutdowncomplete"):
        k = {"cookieack": st.CookieAckChunk, "shutdownack": st.ShutdownAckChunk, "shutdowncomplete": st.ShutdownCompleteChunk}[kind]
        c = k(flags=flags)
        fields = ("body",)
        cls = (kind, flags & 1)
    elif kind == "shutdown":
        c = st.ShutdownChunk(flags=flags)
        c.cumulative_tsn = u32(rng)
        fields = ("cumulative_tsn",)
        cls = (kind, c.cumulative_tsn in U32)
    else:
        c = st.ForwardTsnChunk(flags=flags)
        c.cumulative_tsn = u32(rng)
        n = rng.choice([0, 1, 2, 200, rng.randint(0, 200)]) if not small else rng.randint(0, 3)
        c.streams = [(u16(rng), u16(rng)) for _ in range(n)]
        fields = ("cumulative_tsn", "streams")
        cls = ("fwd", min(n, 3))
    return c, fields + ("flags",), cls


def gen_reconfig_param(rng, st, small):
    k = rng.choice(["reset", "reset", "add", "response"])
    if k == "reset":
        n = rng.choice([0, 1, 2, 3, 135, rng.randint(0, 135)]) if not small else rng.randint(0, 3)
        p = st.StreamResetOutgoingParam(request_sequence=u32(rng), response_sequence=u32(rng), last_tsn=u32(rng),
                                        streams=[u16(rng) for _ in range(n)])
        return (13, bytes(p))
    if k == "add":
        return (17, bytes(st.StreamAddOutgoingParam(request_sequence=u32(rng), new_streams=u16(rng))))
    return (16, bytes(st.StreamResetResponseParam(response_sequence=u32(rng), result=u32(rng))))


def norm(v):
    if isinstance(v, list):
        return [tuple(x) if isinstance(x, (list, tuple)) else x for x in v]
    return v


def case_roundtrip(rng, out):
    import aiortc.rtcsctptransport as st

    for _ in range(300):
        c, fields, cls = gen_chunk(rng, st)
        sp, dp, tag = u16(rng), u16(rng), u32(rng)
        desc = {"kind": "roundtrip", "chunk": repr(c)[:120], "class": type(c).__name__, "cls": repr(cls)}
        data = None
        try:
            with alarm(20):
                data = st.serialize_packet(sp, dp, tag, c)
                sp2, dp2, tag2, chunks = st.parse_packet(data)
        except CaseTimeout:
            decide_hang(st, data, out, desc, "roundtrip")
            continue
        except Exception as exc:
            out.fail("roundtrip-raises", f"{type(exc).__name__}: {exc}", desc, exc)
            continue
        out.checked()
        if (sp2, dp2, tag2) != (sp, dp, tag):
            out.fail("header-differs", f"ports/tag {(sp, dp, tag)} parsed as {(sp2, dp2, tag2)}", desc)
        if len(chunks) != 1 or type(chunks[0]) is not type(c):
            out.fail("chunk-class", f"built one {type(c).__name__}, parsed {[type(x).__name__ for x in chunks]}", desc)
            continue
        d = chunks[0]
        diffs = [(f, repr(getattr(c, f))[:60], repr(getattr(d, f))[:60]) for f in fields
                 if norm(getattr(c, f)) != norm(getattr(d, f))]
        if diffs:
            out.fail("fields-differ:" + type(c).__name__, f"{diffs[:3]}", desc)
        try:
            again = st.serialize_packet(sp2, dp2, tag2, d)
            if again != data:
                out.fail("reserialise-differs:" + type(c).__name__, f"{len(data)} bytes vs {len(again)} bytes", desc)
        except Exception as exc:
            out.fail("reserialise-raises", f"{type(exc).__name__}: {exc}", desc, exc)
        if len(data) % 4:
            out.fail("unaligned:" + type(c).__name__, f"packet length {len(data)} not a multiple of 4", desc)
        declared = int.from_bytes(data[14:16], "big")
        if not (len(data) - 12 - 3 <= declared <= len(data) - 12):
            out.fail("declared-length:" + type(c).__name__, f"declared chunk length {declared}, chunk occupies {len(data) - 12}", desc)
        if any(data[12 + declared:]):
            out.fail("padding-not-zero", "non-zero padding bytes", desc)
        out.distinct(("rt", cls))
        if out.want_sample():
            out.sample(desc | {"bytes": len(data)})
    # reconfig params on their own
    for _ in range(60):
        t, raw = gen_reconfig_param(rng, st, False)
        try:
            back = bytes(st.RECONFIG_PARAM_TYPES[t].parse(raw))
        except Exception as exc:
            out.fail("reconfig-param-raises", f"{type(exc).__name__}: {exc}", {"type": t, "len": len(raw)}, exc)
            continue
        out.checked()
        if back != raw:
            out.fail("reconfig-param-differs", f"param type {t}: bytes differ after parse/serialise", {"type": t, "raw": raw.hex()[:80]})


def case_rebuild(rng, out):
    """A chunk object that was serialised once and whose fields are then changed (the transport keeps such objects: pending
    FORWARD TSN, queued DATA chunks that get flags and TSNs late) serialises to its current field values."""
    import aiortc.rtcsctptransport as st

    for _ in range(150):
        c, fields, cls = gen_chunk(rng, st, small=True)
        for _try in range(20):
            c2, fields2, cls2 = gen_chunk(rng, st, small=True)
            if type(c2) is type(c):
                break
        else:
            continue
        desc = {"kind": "rebuild", "class": type(c).__name__, "first": repr(c)[:100], "then": repr(c2)[:100]}
        try:
            first = st.serialize_packet(1, 2, 3, c)
            bytes(c)
            for f in fields2:
                setattr(c, f, copy.deepcopy(getattr(c2, f)))
            data = st.serialize_packet(1, 2, 3, c)
            want = st.serialize_packet(1, 2, 3, c2)
        except Exception as exc:
            out.fail("rebuild-raises", f"{type(exc).__name__}: {exc}", desc, exc)
            continue
        out.counters["rebuilds_checked"] += 1
        out.checked()
        if data != want:
            out.fail("stale-serialisation:" + type(c).__name__, f"after its fields were changed the chunk still serialises to "
                     f"{'the bytes of its first serialisation' if data == first else 'other bytes'} ({len(data)} vs {len(want)} bytes)", desc)


def case_transport(rng, out, index):
    """Wire conformance of the running transport: every chunk object handed to RTCSctpTransport._send_chunk (public fields
    recorded at the call) against what the datagram on the link parses back to - over lossy mixed-reliability programs,
    where FORWARD TSN, SACKs with gaps/duplicates, RE-CONFIG and retransmitted DATA are built from live state."""
    from vt.rigs.sctp_workload import gen_program, run_program, summarize_prog

    prog = gen_program(rng, mode=rng.choice(["mixed", "mixed", "mixed", "reliable"]), heavy=index % 2 == 0)
    r = run_program(prog, rng, relay=(index % 5 == 4), probe=False)
    c = r["counters"]
    out.counters["chunks_on_wire_compared"] += c.get("chunks_on_wire_compared", 0)
    out.counters["chunks_built_observed"] += c.get("chunks_built_observed", 0)
    out.checked(c.get("chunks_on_wire_compared", 0))
    for v in r["violations"]:
        if v["cat"] == "wire-conformance":
            out.fail("wire-differs-from-built:" + str(v["key"]), v["what"], {"prog": summarize_prog(prog), "specs": r["specs"], "tsn_origins": r.get("origins")})
    w = r["wire"]
    if w.get("tx_fwd", 0) and w.get("tx_sack_with_gaps", 0):
        out.distinct(("transport", r["fingerprint"]))


def decide_hang(st, data, out, desc, what):
    """The wall-clock guard fired: decide with the step budget (40 monitored steps per byte + 4000)."""
    if data is None:
        out.fail(what + "-hang", "serialising the chunk did not finish within the guard", desc)
        return
    verdict, info = confirm_hang(st.parse_packet, 40 * len(data) + 4000, data)
    if verdict == "hang":
        out.fail(what + "-hang@" + info, f"parse_packet loops on a {len(data)}-byte packet: step budget exceeded at {info}",
                 desc | {"packet": data.hex()[:200]})
    else:
        out.inconclusive = f"guard fired but the step budget was respected ({info}): machine too slow"


def burst_patterns(length, rng, interiors):
    """XOR masks (as ints, MSB = first bit of the burst) with first and last bit set."""
    if length == 1:
        return [1]
    if length == 2:
        return [3]
    hi, lo = 1 << (length - 1), 1
    inner_bits = length - 2
    if interiors == "all":
        return [hi | (m << 1) | lo for m in range(1 << inner_bits)]
    pats = {hi | lo, hi | (((1 << inner_bits) - 1) << 1) | lo}
    while len(pats) < min(interiors, 1 << inner_bits):
        pats.add(hi | (rng.getrandbits(inner_bits) << 1) | lo)
    return sorted(pats)


def try_burst(st, data, nbits, pos, length, mask, out, desc):
    big = int.from_bytes(data, "big")
    shift = nbits - pos - length
    mutated = (big ^ (mask << shift)).to_bytes(len(data), "big")
    desc["cur"] = mutated
    before = _counting["n"]
    try:
        st.parse_packet(mutated)
    except ValueError as exc:
        if "checksum" not in str(exc):
            out.fail("burst-other-error", f"burst pos={pos} len={length} mask={mask:#x}: rejected with {exc!r} instead of the "
                     "checksum error (something looked at the packet before the checksum)", desc)
    except Exception as exc:
        out.fail("burst-raises", f"burst pos={pos} len={length} mask={mask:#x}: {type(exc).__name__}: {exc}", desc, exc)
    else:
        out.fail("burst-accepted", f"burst pos={pos} len={length} mask={mask:#x}: parse_packet returned", desc)
    if _counting["n"] != before:
        out.fail("burst-reached-chunk-processing", f"burst pos={pos} len={length} mask={mask:#x}: a chunk constructor ran "
                 "on a corrupted packet", desc)
    out.counters["bursts_checked"] += 1


def case_burst(rng, out, tier, exhaustive):
    import aiortc.rtcsctptransport as st

    small = exhaustive or rng.random() < 0.8
    c, fields, cls = gen_chunk(rng, st, small=small)
    if not small and isinstance(c, st.DataChunk):
        c.user_data = c.user_data[:rng.choice([100, 300, 1200])]
    data = st.serialize_packet(u16(rng), u16(rng), u32(rng), c)
    if len(data) > 1300:
        data = st.serialize_packet(5000, 5000, 1, st.CookieAckChunk())
    nbits = len(data) * 8
    desc = {"kind": "burst-exhaustive" if exhaustive else "burst", "class": type(c).__name__, "bytes": len(data),
            "packet": data.hex()[:120]}
    maxlen_all = (12 if tier == "thorough" else 8) if exhaustive else 2
    interiors = 16 if tier == "thorough" else 3
    n = 0
    for length in range(1, 33):
        pats = burst_patterns(length, rng, "all" if length <= maxlen_all else interiors)
        if exhaustive and length > maxlen_all:
            break
        try:
            with alarm(120):
                for pos in range(0, nbits - length + 1):
                    for mask in pats:
                        try_burst(st, data, nbits, pos, length, mask, out, desc)
                        n += 1
        except CaseTimeout:
            decide_hang(st, desc.pop("cur", None), out, desc, "burst")
            break
    # bursts aimed at the checksum field itself: the one burst that turns it into 0, all ones, 1, or its byte-swapped self
    v = int.from_bytes(data[8:12], "big")
    for target in (0, 0xFFFFFFFF, 1, int.from_bytes(data[8:12], "little"), v >> 1, (v << 1) & 0xFFFFFFFF):
        m32 = v ^ target
        if not m32:
            continue
        lz = 32 - m32.bit_length()
        tz = (m32 & -m32).bit_length() - 1
        try_burst(st, data, nbits, 64 + lz, 32 - lz - tz, m32 >> tz, out, desc)
        out.counters["checksum_field_bursts"] += 1
        n += 1
    desc.pop("cur", None)
    out.checked(0)
    out.distinct(("burst", data.hex()[:64], exhaustive))
    out.hashes.update(f"{desc['packet'][:16]}:{i}" for i in range(min(n, 2000) // 100))  # coarse: 1 per 100 bursts
    out.sample(desc | {"bursts": n, "max_len_all_interiors": maxlen_all})


def plan(tier):
    if tier == "thorough":
        return dict(cases=3200, shards=16, timeout=2400, min_nontrivial=500)
    return dict(cases=240, shards=16, timeout=240, min_nontrivial=100)


def run_case(index, rng, tier):
    kind = ("roundtrip", "burst", "burst-exhaustive")[index % 3]
    if index % 12 == 9:
        kind = "transport"
    out = Batch("C08", kind)
    if kind == "transport":
        case_transport(rng, out, index)
    elif kind == "roundtrip":
        case_roundtrip(rng, out)
        case_rebuild(rng, out)
    else:
        case_burst(rng, out, tier, kind == "burst-exhaustive")
    out.counters["kind_" + kind] += 1
    res = out.result()
    res["evals"] = out.counters.get("roundtrips_checked", 0) + out.counters.get("bursts_checked", 0)
    return res
