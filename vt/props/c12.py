"""C12 - bundled RTP/RTCP is routed to exactly the right receivers and senders (Pure reference model, DESIGN 3/C12)."""
import collections
import itertools
import struct

from vt.core.batch import Batch

ID = "C12"
LEVEL = "exploration"
RULE = ("Each random case = 40 histories of 20-200 operations over 2-5 receivers and 2-5 senders with overlapping SSRC and "
        "payload-type sets: register_receiver (also re-registration with other sets), unregister_receiver, register_sender, "
        "unregister_sender, route_rtp (known/unknown SSRC x payload type accepted by 0/1/many receivers) and route_rtcp for "
        "SR, RR (0-4 report blocks), BYE (0-3 sources), NACK/PLI/FIR/other feedback (media ssrc), REMB (0-4 SSRCs in the FCI, "
        "also non-REMB APP FCI) and SDES. After every operation the real RtpRouter's return value is compared with a small "
        "reference router written from the statement (dicts and sets), and independently every returned party must be "
        "currently registered (tombstone set). One case in five replays such histories behind a real RTCDtlsTransport object with "
        "recording receivers and senders: what _handle_rtp_data / _handle_rtcp_data deliver (after real serialisation and parsing) "
        "must be the model's set, exactly once each. Enumeration cases run ALL histories up to length 4 (quick) / 5 (thorough) "
        "over 2 receivers x 2 payload types x 2 SSRCs. Distinct/non-trivial = distinct histories containing "
        "latch->unregister->packet, or a packet whose payload type is accepted by several receivers, or overlap of SSRC sets."
        ' Behind a real RTCDtlsTransport the histories include compound RTCP packets during whose dispatch one handler unregisters another party: sub-packets after that moment must not reach it.')
ASSUMPTIONS = [
    "receivers and senders are opaque stub objects (the router only stores and returns them)",
    "SDES packets: only the 'never routed to an unregistered party' clause is evaluated (the statement does not say who SDES reports on)",
    "REMB FCIs are well formed or have a non-REMB prefix; truncated FCIs belong to C05",
]
DECIDING = ["routes_checked", "rtcp_routes_checked"]
EXPLANATION = "exhaustive only for the sub-space: 2 receivers x 2 payload types x 2 SSRCs, all operation sequences of length <= 4 (quick) / <= 5 (thorough)"


class Party:
    def __init__(self, name):
        self.name = name

    def __repr__(self):
        return self.name


class Model:
    """Reference router, written from the statement."""

    def __init__(self):
        self.ssrc_owner = {}
        self.accepts = collections.defaultdict(set)
        self.senders = {}

    def register_receiver(self, r, ssrcs, pts):
        for s in ssrcs:
            self.ssrc_owner[s] = r
        for p in pts:
            self.accepts[p].add(r)

    def unregister_receiver(self, r):
        for s in [s for s, o in self.ssrc_owner.items() if o is r]:
            del self.ssrc_owner[s]
        for group in self.accepts.values():
            group.discard(r)

    def register_sender(self, s, ssrc):
        self.senders[ssrc] = s

    def unregister_sender(self, s):
        for k in [k for k, v in self.senders.items() if v is s]:
            del self.senders[k]

    def route_rtp(self, ssrc, pt):
        owner = self.ssrc_owner.get(ssrc)
        group = self.accepts.get(pt, set())
        if owner is not None:
            return owner if owner in group else None
        if len(group) == 1:
            (only,) = group
            self.ssrc_owner[ssrc] = only  # sticks from then on
            return only
        return None

    def route_rtcp(self, kind, ssrc, reports, sources, media_ssrc, remb_ssrcs):
        out = set()
        if kind == "sr":
            out.add(self.ssrc_owner.get(ssrc))
        if kind == "bye":
            out.update(self.ssrc_owner.get(s) for s in sources)
        if kind in ("sr", "rr"):
            out.update(self.senders.get(s) for s in reports)
        if kind in ("nack", "pli", "fir", "psfb", "rtpfb", "remb", "app"):
            out.add(self.senders.get(media_ssrc))
        if kind == "remb":
            out.update(self.senders.get(s) for s in remb_ssrcs)
        out.discard(None)
        return out


def build_rtcp(rtp, kind, ssrc, reports, sources, media_ssrc, remb_ssrcs):
    def ri(s):
        return rtp.RtcpReceiverInfo(ssrc=s, fraction_lost=0, packets_lost=0, highest_sequence=0, jitter=0, lsr=0, dlsr=0)
    if kind == "sr":
        return rtp.RtcpSrPacket(ssrc=ssrc, sender_info=rtp.RtcpSenderInfo(0, 0, 0, 0), reports=[ri(s) for s in reports])
    if kind == "rr":
        return rtp.RtcpRrPacket(ssrc=ssrc, reports=[ri(s) for s in reports])
    if kind == "bye":
        return rtp.RtcpByePacket(sources=list(sources))
    if kind == "nack":
        return rtp.RtcpRtpfbPacket(fmt=rtp.RTCP_RTPFB_NACK, ssrc=ssrc, media_ssrc=media_ssrc, lost=[1, 2])
    if kind == "rtpfb":
        return rtp.RtcpRtpfbPacket(fmt=15, ssrc=ssrc, media_ssrc=media_ssrc)
    if kind == "pli":
        return rtp.RtcpPsfbPacket(fmt=rtp.RTCP_PSFB_PLI, ssrc=ssrc, media_ssrc=media_ssrc)
    if kind == "fir":
        return rtp.RtcpPsfbPacket(fmt=rtp.RTCP_PSFB_FIR, ssrc=ssrc, media_ssrc=media_ssrc, fci=struct.pack("!LB3x", media_ssrc, 1))
    if kind == "psfb":
        return rtp.RtcpPsfbPacket(fmt=rtp.RTCP_PSFB_SLI, ssrc=ssrc, media_ssrc=media_ssrc, fci=b"\x00" * 4)
    if kind == "remb":
        return rtp.RtcpPsfbPacket(fmt=rtp.RTCP_PSFB_APP, ssrc=ssrc, media_ssrc=media_ssrc, fci=rtp.pack_remb_fci(123456, list(remb_ssrcs)))
    if kind == "app":
        return rtp.RtcpPsfbPacket(fmt=rtp.RTCP_PSFB_APP, ssrc=ssrc, media_ssrc=media_ssrc, fci=b"XXXX" + struct.pack("!L", remb_ssrcs[0] if remb_ssrcs else 1) * 2)
    if kind == "sdes":
        return rtp.RtcpSdesPacket(chunks=[rtp.RtcpSourceInfo(ssrc=s, items=[(1, b"x")]) for s in sources] or [rtp.RtcpSourceInfo(ssrc=ssrc, items=[])])
    raise AssertionError(kind)


class Runner:
    def __init__(self, out, desc):
        from aiortc import rtp
        from aiortc.rtcdtlstransport import RtpRouter

        self.rtp = rtp
        self.router = RtpRouter()
        self.model = Model()
        self.out = out
        self.desc = desc
        self.live = set()
        self.ever = set()
        self.feats = set()
        self.latched = {}
        self.dead_after_latch = set()
        self.ok = True

    def op(self, o):
        out, rtp = self.out, self.rtp
        k = o[0]
        try:
            if k == "reg":
                _, r, ssrcs, pts, mid = o
                if any(self.model.ssrc_owner.get(s) not in (None, r) for s in ssrcs):
                    self.feats.add("ssrc-overlap")
                self.router.register_receiver(r, list(ssrcs), list(pts), mid)
                self.model.register_receiver(r, ssrcs, pts)
                self.live.add(r)
                self.ever.add(r)
            elif k == "unreg":
                r = o[1]
                self.router.unregister_receiver(r)
                self.model.unregister_receiver(r)
                self.live.discard(r)
                if r in self.latched.values():
                    self.dead_after_latch.add(r)
            elif k == "regs":
                _, s, ssrc = o
                self.router.register_sender(s, ssrc)
                self.model.register_sender(s, ssrc)
                self.live.add(s)
                self.ever.add(s)
            elif k == "unregs":
                s = o[1]
                self.router.unregister_sender(s)
                self.model.unregister_sender(s)
                self.live.discard(s)
            elif k == "rtp":
                _, ssrc, pt = o
                known = ssrc in self.model.ssrc_owner
                group = len(self.model.accepts.get(pt, ()))
                want = self.model.route_rtp(ssrc, pt)
                got = self.router.route_rtp(rtp.RtpPacket(payload_type=pt, ssrc=ssrc, sequence_number=1, timestamp=1))
                out.counters["routes_checked"] += 1
                if not known and want is not None:
                    self.latched[ssrc] = want
                    self.feats.add("latch")
                if group > 1:
                    self.feats.add("ambiguous-pt")
                if self.dead_after_latch:
                    self.feats.add("latch-unregister-packet")
                if got is not want:
                    self.fail("rtp-misrouted", f"route_rtp(ssrc={ssrc}, pt={pt}) -> {got!r}, specification says {want!r} "
                              f"(ssrc known: {known}, receivers accepting the payload type: {group})", o)
                if got is not None and got not in self.live:
                    self.fail("routed-to-unregistered", f"route_rtp(ssrc={ssrc}, pt={pt}) -> {got!r} which is not registered", o)
            elif k == "rtcp":
                _, kind, ssrc, reports, sources, media_ssrc, remb = o
                pkt = build_rtcp(rtp, kind, ssrc, reports, sources, media_ssrc, remb)
                got = self.router.route_rtcp(pkt)
                out.counters["rtcp_routes_checked"] += 1
                bad = [p for p in got if p not in self.live]
                if bad:
                    self.fail("routed-to-unregistered", f"route_rtcp({kind}) -> {sorted(map(repr, got))} includes unregistered {bad!r}", o)
                if kind != "sdes":
                    want = self.model.route_rtcp(kind, ssrc, reports, sources, media_ssrc, remb)
                    if set(got) != want:
                        self.fail("rtcp-misrouted:" + kind, f"route_rtcp({kind} ssrc={ssrc} reports={reports} sources={sources} media={media_ssrc} "
                                  f"remb={remb}) -> {sorted(map(repr, got))}, specification says {sorted(map(repr, want))}", o)
                if not isinstance(got, (set, frozenset, list, tuple)):
                    self.fail("rtcp-return-type", f"route_rtcp returned {type(got).__name__}", o)
        except Exception as exc:
            self.ok = False
            out.fail("router-raises", f"{type(exc).__name__}: {exc} on {o!r}"[:300], self.desc, exc)

    def fail(self, key, what, o):
        self.out.fail(key, what, self.desc | {"failing_op": repr(o)})


def gen_history(rng):
    nr, ns = rng.randint(2, 5), rng.randint(2, 5)
    recvs = [Party(f"R{i}") for i in range(nr)]
    sends = [Party(f"S{i}") for i in range(ns)]
    ssrcs = [rng.choice([0, 1, 1000, 0xFFFFFFFF, rng.randrange(1 << 32)]) for _ in range(rng.randint(3, 8))]
    ssrcs = list(dict.fromkeys(ssrcs)) or [7]
    pts = rng.sample([0, 8, 96, 97, 98, 100, 111, 127], rng.randint(2, 5))
    ops = []
    for _ in range(rng.choice([20, 60, 200])):
        r = rng.random()
        if r < 0.14:
            ops.append(("reg", rng.choice(recvs), tuple(rng.sample(ssrcs, rng.randint(0, min(3, len(ssrcs))))),
                        tuple(rng.sample(pts, rng.randint(0, min(3, len(pts))))), rng.choice([None, "0", "1"])))
        elif r < 0.2:
            ops.append(("unreg", rng.choice(recvs)))
        elif r < 0.3:
            ops.append(("regs", rng.choice(sends), rng.choice(ssrcs)))
        elif r < 0.35:
            ops.append(("unregs", rng.choice(sends)))
        elif r < 0.7:
            ssrc = rng.choice(ssrcs) if rng.random() < 0.7 else rng.randrange(1 << 32)
            ops.append(("rtp", ssrc, rng.choice(pts + [5, 99])))
        else:
            kind = rng.choice(["sr", "rr", "bye", "nack", "pli", "fir", "psfb", "rtpfb", "remb", "remb", "app", "sdes"])
            pick = lambda: rng.choice(ssrcs) if rng.random() < 0.8 else rng.randrange(1 << 32)
            ops.append(("rtcp", kind, pick(), tuple(pick() for _ in range(rng.randint(0, 4))),
                        tuple(pick() for _ in range(rng.randint(0, 3))), 0 if kind == "remb" and rng.random() < 0.7 else pick(),
                        tuple(pick() for _ in range(rng.randint(0, 4)))))
    return ops


def case_random(rng, out):
    for _ in range(40):
        ops = gen_history(rng)
        desc = {"kind": "random", "ops": [repr(o)[:90] for o in ops[:25]], "n_ops": len(ops)}
        run = Runner(out, desc)
        for o in ops:
            run.op(o)
            if not run.ok:
                break
        out.counters["histories"] += 1
        if run.feats & {"latch-unregister-packet", "ambiguous-pt", "ssrc-overlap"}:
            out.distinct(("hist", hash(tuple(map(repr, ops)))))
        if out.want_sample():
            out.sample(desc | {"features": sorted(run.feats)})


def enum_alphabet():
    R = [Party("R0"), Party("R1")]
    S = [Party("S0")]
    ssrcs, pts = [11, 22], [96, 97]
    alpha = []
    for r in R:
        for s in ssrcs:
            for p in pts:
                alpha.append(("reg", r, (s,), (p,), None))
        alpha.append(("reg", r, (), tuple(pts), None))
        alpha.append(("unreg", r))
    for s in ssrcs:
        for p in pts:
            alpha.append(("rtp", s, p))
    alpha.append(("regs", S[0], 11))
    alpha.append(("unregs", S[0]))
    alpha.append(("rtcp", "sr", 11, (11,), (), 0, ()))
    alpha.append(("rtcp", "bye", 0, (), (11, 22), 0, ()))
    alpha.append(("rtcp", "remb", 1, (), (), 0, (22, 11)))
    return alpha


def case_enum(out, tier, index, nshards):
    alpha = enum_alphabet()
    maxlen = 5 if tier == "thorough" else 4
    n = 0
    # the first operation partitions the space between the enumeration cases
    firsts = [a for i, a in enumerate(alpha) if i % nshards == index]
    for first in firsts:
        for length in range(0, maxlen):
            for rest in itertools.product(alpha, repeat=length):
                ops = (first,) + rest
                run = Runner(out, {"kind": "enum", "ops": [repr(o)[:80] for o in ops]})
                for o in ops:
                    run.op(o)
                n += 1
    out.counters["enumerated_histories"] += n
    out.distinct(("enum", index, n))
    out.hashes.update(f"enum-{index}-{i}" for i in range(n // 1000))
    out.sample({"kind": "enum", "first_ops": [repr(f)[:60] for f in firsts], "max_length": maxlen, "histories": n,
                "alphabet": len(alpha)})


class RecStub(Party):
    """Recording receiver / sender registered on a real RTCDtlsTransport object."""

    def __init__(self, name, ssrc=0):
        super().__init__(name)
        self._ssrc = ssrc
        self.got = []

    async def _handle_rtp_packet(self, packet, arrival_time_ms):
        self.got.append(("rtp", packet.ssrc, packet.payload_type))

    async def _handle_rtcp_packet(self, packet):
        self.got.append(("rtcp", type(packet).__name__))
        hook = getattr(self, "hook", None)
        if hook is not None and len(self.got) == self.hook_at:
            self.hook = None
            hook()  # an application reacting to this packet (e.g. a BYE) by stopping another receiver / sender

    def _handle_disconnect(self):
        pass


async def transport_history(rng, out):
    """The same kind of history behind a real RTCDtlsTransport object (state forced to 'connected'): what
    _handle_rtp_data / _handle_rtcp_data deliver must be what the reference router says."""
    from aiortc import rtp
    from aiortc.rtcrtpparameters import RTCRtpCodecParameters, RTCRtpDecodingParameters, RTCRtpReceiveParameters, RTCRtpSendParameters
    from vt.rigs.media import FakeIce, certificate
    from aiortc.rtcdtlstransport import RTCDtlsTransport, State

    t = RTCDtlsTransport(FakeIce("controlling"), [certificate()])
    t._set_state(State.CONNECTING)
    t._set_state(State.CONNECTED)
    model = Model()
    ssrcs = [rng.randrange(1, 1 << 32) for _ in range(5)]
    pts = rng.sample([96, 97, 98, 100, 111], 3)
    recvs = [RecStub(f"R{i}") for i in range(3)]
    sends = [RecStub(f"S{i}", ssrc=rng.choice(ssrcs)) for i in range(3)]
    live = set()
    ops = []
    for _ in range(rng.choice([20, 60])):
        r = rng.random()
        if r < 0.2:
            rv = rng.choice(recvs)
            ss = rng.sample(ssrcs, rng.randint(0, 2))
            pp = rng.sample(pts, rng.randint(1, 2))
            params = RTCRtpReceiveParameters(codecs=[RTCRtpCodecParameters(mimeType="video/VP8", clockRate=90000, payloadType=p) for p in pp],
                                             encodings=[RTCRtpDecodingParameters(ssrc=x, payloadType=pp[0]) for x in ss])
            t._register_rtp_receiver(rv, params)
            model.register_receiver(rv, ss, pp)
            live.add(rv)
            ops.append(("reg", rv.name, ss, pp))
        elif r < 0.28:
            rv = rng.choice(recvs)
            t._unregister_rtp_receiver(rv)
            model.unregister_receiver(rv)
            live.discard(rv)
            ops.append(("unreg", rv.name))
        elif r < 0.38:
            sd = rng.choice(sends)
            t._register_rtp_sender(sd, RTCRtpSendParameters())
            model.register_sender(sd, sd._ssrc)
            live.add(sd)
            ops.append(("regs", sd.name, sd._ssrc))
        elif r < 0.43:
            sd = rng.choice(sends)
            t._unregister_rtp_sender(sd)
            model.unregister_sender(sd)
            live.discard(sd)
            ops.append(("unregs", sd.name))
        else:
            for x in recvs + sends:
                x.got.clear()
            if r < 0.75:
                ssrc = rng.choice(ssrcs) if rng.random() < 0.8 else rng.randrange(1 << 32)
                pt = rng.choice(pts + [5])
                want = model.route_rtp(ssrc, pt)
                want_set = {want} if want is not None else set()
                data = rtp.RtpPacket(payload_type=pt, ssrc=ssrc, sequence_number=1, timestamp=1, payload=b"x").serialize()
                await t._handle_rtp_data(data, arrival_time_ms=0)
                op = ("rtp", ssrc, pt)
                out.counters["routes_checked"] += 1
            else:
                pick = lambda: rng.choice(ssrcs)
                data = b""
                want_calls = collections.Counter()
                op = ("rtcp",)
                n_sub = rng.choice([1, 1, 2, 3])
                # one party may be unregistered by the handler of another while the compound packet is being dispatched:
                # what was routed before that moment may still arrive, the sub-packets after it must not
                inflight = rng.random() < 0.3 and n_sub > 1 and live
                slack = collections.Counter()
                for _k in range(n_sub):  # compound packets too
                    kind = rng.choice(["sr", "rr", "bye", "nack", "pli", "remb"])
                    args = (kind, pick(), tuple(pick() for _ in range(rng.randint(0, 3))), tuple(pick() for _ in range(rng.randint(0, 2))),
                            0 if kind == "remb" else pick(), tuple(pick() for _ in range(rng.randint(0, 3))))
                    parties = list(model.route_rtcp(*args))
                    for party in parties:
                        want_calls[party] += 1
                    if inflight and parties and _k < n_sub - 1:
                        inflight = False
                        x = rng.choice(parties)
                        y = rng.choice(sorted(live, key=repr))
                        x.hook_at = want_calls[x]
                        if y in recvs:
                            x.hook = lambda y=y: t._unregister_rtp_receiver(y)
                            model.unregister_receiver(y)
                        else:
                            x.hook = lambda y=y: t._unregister_rtp_sender(y)
                            model.unregister_sender(y)
                        live.discard(y)
                        if y in parties and y is not x:
                            slack[y] = 1  # same sub-packet: routed before the unregistration, delivered or not
                        op += (("unregister", y.name, "inside handler of", x.name),)
                        out.counters["inflight_unregistrations"] += 1
                    data += bytes(build_rtcp(rtp, *args))
                    op += (args,)
                    out.counters["rtcp_routes_checked"] += 1
                want_set = set(want_calls)
                await t._handle_rtcp_data(data)
                for x in recvs + sends:
                    x.hook = None
                for y_, n_ in slack.items():
                    if len(y_.got) == want_calls[y_] - n_:
                        want_calls[y_] -= n_
                        if not want_calls[y_]:
                            want_set.discard(y_)
            ops.append(op)
            got_set = {x for x in recvs + sends if x.got}
            calls_ok = all(len(x.got) == (want_calls[x] if op[0] == "rtcp" else 1) for x in got_set)
            if got_set != want_set or not calls_ok:
                out.fail("transport-delivery-differs", f"{op!r}: delivered to {sorted(map(repr, got_set))} "
                         f"({[len(x.got) for x in got_set]} calls), specification says {sorted(map(repr, want_set))}",
                         {"kind": "transport", "ops": [repr(o)[:80] for o in ops[-12:]]})
                return
            if any(x not in live and not (op[0] == "rtcp" and any(isinstance(o, tuple) and o and o[0] == "unregister" and o[1] == x.name for o in op)) for x in got_set):
                out.fail("routed-to-unregistered", f"{op!r}: delivered to an unregistered party", {"kind": "transport"})
                return
    out.counters["transport_histories"] += 1
    out.distinct(("transport", hash(tuple(map(repr, ops)))))


ENUM_CASES = 21


def plan(tier):
    if tier == "thorough":
        return dict(cases=12000, shards=16, timeout=2400, min_nontrivial=2000)
    return dict(cases=640, shards=16, timeout=240, min_nontrivial=300)


def run_case(index, rng, tier):
    out = Batch("C12", "c12", checked_counter="routes_checked")
    if index < ENUM_CASES:
        case_enum(out, tier, index, ENUM_CASES)
        out.counters["kind_enum"] += 1
    elif index % 5 == 0:
        from vt.rigs.pc import run_async

        async def go():
            for _ in range(40):
                await transport_history(rng, out)
        run_async(go(), timeout=120)
        out.counters["kind_transport"] += 1
        out.sample({"kind": "transport", "histories": 40})
    else:
        case_random(rng, out)
        out.counters["kind_random"] += 1
    res = out.result()
    res["evals"] = out.counters.get("routes_checked", 0) + out.counters.get("rtcp_routes_checked", 0)
    return res
