"""C16 - H.264 and VP8 packetisation is lossless and respects the payload size limit (Pure, DESIGN 3/C16)."""
import fractions
import struct

from vt.core.batch import Batch

ID = "C16"
LEVEL = "exploration"
RULE = ("H.264 cases: sequences of 1-40 NAL units (sizes from {2, 3, 10, 1296..1302, k*1298-1..k*1298+1 for k<=46, 60000, "
        "random}; header byte = any F/NRI bits with type 1-23; Annex-B clean bodies: no 00 00 0x inside, last byte non-zero) "
        "joined with mixed 3-/4-byte start codes, fed to H264Encoder._packetize(list) and, as av.Packet, to pack(). VP8 "
        "cases: buffers of 0..60000 bytes (same strata around k*1297 / k*1298) with picture ids over the 15-bit range, plus "
        "descriptor objects with every combination of optional fields. Oracles: every payload <= 1300 bytes; concatenated "
        "depayload output == start-code-prefixed NALs / the VP8 buffer; an independent reader checks FU-A runs (one S, one E, "
        "none both, original type/NRI bits, reassembled NAL equal) and STAP-A contents; VP8 first payload S=1/PID=0, others "
        "S=0, all with the frame's picture id; VpxPayloadDescriptor.parse(bytes(d)) field-equal with empty remainder. "
        "Enumeration cases cover single-NAL sizes 2..5200 and VP8 sizes 0..5200 completely. Distinct/non-trivial = distinct "
        "(codec, size-class vector, packet-kind vector)."
        ' Interleaving: an iterator that runs a complete second packetisation when asked for its k-th NAL unit; both outputs must equal the sequential ones.')
ASSUMPTIONS = [
    "NAL bodies are Annex-B clean (what a conforming encoder emits): _split_bitstream cannot tell an embedded start code from a real one",
    "PyAV trusted for av.Packet byte storage",
]
DECIDING = ["sequences_checked", "payloads_checked"]
EXPLANATION = ("exhaustive only for the sub-spaces 'single NAL of 2..5200 bytes' and 'VP8 buffer of 0..5200 bytes' (covered by the "
               "enumeration cases across one run) and 'all 15-bit picture ids in a descriptor'")

PACKET_MAX = 1300


def nal_size(rng):
    r = rng.random()
    if r < 0.25:
        return rng.choice([2, 3, 10, 50, 200])
    if r < 0.5:
        return rng.choice([1295, 1296, 1297, 1298, 1299, 1300, 1301, 1302])
    if r < 0.75:
        k = rng.randint(1, 46)
        return max(2, k * 1298 + rng.choice([-2, -1, 0, 1, 2]))
    if r < 0.8:
        return 60000
    return rng.randint(2, 6000)


def make_nal(rng, size):
    header = (rng.choice([0, 0, 0, 1]) << 7) | (rng.randrange(4) << 5) | rng.randint(1, 23)
    mode = rng.random()
    if mode < 0.7:
        body = bytes(rng.choices(range(1, 256), k=size - 1))
    else:
        # isolated zero bytes allowed, never two in a row, last byte non-zero
        b = bytearray(rng.choices(range(0, 256), k=size - 1))
        for i in range(1, len(b)):
            if b[i] == 0 and b[i - 1] == 0:
                b[i] = 7
        if b and b[-1] == 0:
            b[-1] = 9
        body = bytes(b)
    return bytes([header]) + body


def read_payloads(payloads, out, desc):
    """Independent reader of RFC 6184 payload structures -> list of NAL units."""
    nals = []
    fu = None
    for i, p in enumerate(payloads):
        t = p[0] & 0x1F
        if 1 <= t <= 23:
            if fu is not None:
                out.fail("fu-a-interrupted", f"single NAL inside an unfinished FU-A run at payload {i}", desc)
                fu = None
            nals.append(p)
        elif t == 24:
            if fu is not None:
                out.fail("fu-a-interrupted", f"STAP-A inside an unfinished FU-A run at payload {i}", desc)
                fu = None
            pos = 1
            n = 0
            maxnri = 0
            fbit = 0
            while pos < len(p):
                (ln,) = struct.unpack_from("!H", p, pos)
                pos += 2
                nal = p[pos:pos + ln]
                if len(nal) != ln:
                    out.fail("stap-a-truncated", f"STAP-A entry {n} announces {ln} bytes, {len(nal)} present", desc)
                nals.append(nal)
                maxnri = max(maxnri, nal[0] & 0x60)
                fbit |= nal[0] & 0x80
                pos += ln
                n += 1
            out.counters["stap_a_packets"] += 1
        elif t == 28:
            s, e = p[1] & 0x80, p[1] & 0x40
            out.counters["fu_a_packets"] += 1
            if s and e:
                out.fail("fu-a-start-and-end", f"FU-A fragment {i} has both S and E", desc)
            if s:
                if fu is not None:
                    out.fail("fu-a-two-starts", f"second S bit at payload {i} before E", desc)
                fu = bytearray([(p[0] & 0xE0) | (p[1] & 0x1F)])
            elif fu is None:
                out.fail("fu-a-no-start", f"FU-A fragment {i} without a preceding S", desc)
                fu = bytearray([(p[0] & 0xE0) | (p[1] & 0x1F)])
            elif ((p[0] & 0xE0) | (p[1] & 0x1F)) != fu[0]:
                out.fail("fu-a-header-changes", f"FU-A fragment {i} carries different type/NRI bits", desc)
            fu += p[2:]
            if e:
                nals.append(bytes(fu))
                fu = None
        else:
            out.fail("payload-type", f"payload {i} has NAL type {t}", desc)
    if fu is not None:
        out.fail("fu-a-no-end", "FU-A run without E bit", desc)
    return nals


def check_h264(nals, payloads, out, desc, h264_depayload):
    out.counters["sequences_checked"] += 1
    out.counters["payloads_checked"] += len(payloads)
    big = [len(p) for p in payloads if len(p) > PACKET_MAX]
    if big:
        out.fail("h264-payload-too-big", f"payload sizes {big[:4]} > {PACKET_MAX}", desc)
    try:
        got = b"".join(h264_depayload(p) for p in payloads)
    except Exception as exc:
        out.fail("h264-depayload-raises", f"{type(exc).__name__}: {exc}", desc, exc)
        return
    want = b"".join(b"\x00\x00\x00\x01" + n for n in nals)
    if got != want:
        out.fail("h264-bitstream-differs", f"depayloaded {len(got)} bytes != original {len(want)} bytes "
                 f"(first difference at {next((i for i, (a, b) in enumerate(zip(got, want)) if a != b), min(len(got), len(want)))})", desc)
    back = read_payloads(payloads, out, desc)
    if back != list(nals):
        out.fail("h264-nal-sequence-differs", f"{len(nals)} NAL units in, {len(back)} out or contents differ", desc)


def size_class(n):
    if n <= 3:
        return "tiny"
    if n < 1296:
        return "small"
    if n <= 1300:
        return f"b{n}"
    if n <= 1302:
        return "just-over"
    k, r = divmod(n, 1298)
    return f"k{min(k, 5)}r{'0' if r == 0 else '1' if r == 1 else 'm1' if r == 1297 else 'x'}"


def case_h264(rng, out, enum_range=None):
    import av
    from aiortc.codecs.h264 import H264Encoder, h264_depayload

    enc = H264Encoder()
    seqs = []
    if enum_range is not None:
        seqs = [[make_nal(rng, n)] for n in enum_range]
    else:
        for _ in range(30):
            n = rng.choice([1, 1, 2, 3, 5, 9, 10, 11, 20, 40])
            style = rng.random()
            if style < 0.3:  # many small ones: STAP-A aggregation limits (9 per packet, size budget)
                seqs.append([make_nal(rng, rng.choice([2, 3, 10, 100, 140, 143, 144, 145, 320, 640, 646, 647, 648])) for _ in range(n)])
            else:
                seqs.append([make_nal(rng, nal_size(rng)) for _ in range(n)])
    for nals in seqs:
        desc = {"kind": "h264", "sizes": [len(n) for n in nals][:40], "headers": [n[0] for n in nals][:40]}
        try:
            payloads = enc._packetize(list(nals))
        except Exception as exc:
            out.fail("h264-packetize-raises", f"{type(exc).__name__}: {exc}", desc, exc)
            continue
        check_h264(nals, payloads, out, desc | {"via": "_packetize"}, h264_depayload)
        kinds = tuple(sorted({("fu" if (p[0] & 31) == 28 else "stap" if (p[0] & 31) == 24 else "single") for p in payloads}))
        out.distinct(("h264", tuple(size_class(len(n)) for n in nals[:6]), kinds, len(nals) > 9))
        # through pack(): the bitstream with mixed 3-/4-byte start codes
        if enum_range is None or rng.random() < 0.05:
            buf = b"".join((b"\x00\x00\x01" if rng.random() < 0.5 else b"\x00\x00\x00\x01") + n for n in nals)
            pkt = av.Packet(buf)
            pkt.pts = rng.choice([0, 1, 90000, rng.randrange(1 << 31)])
            pkt.time_base = fractions.Fraction(1, 90000)
            try:
                payloads2, ts = enc.pack(pkt)
            except Exception as exc:
                out.fail("h264-pack-raises", f"{type(exc).__name__}: {exc}", desc, exc)
                continue
            check_h264(nals, payloads2, out, desc | {"via": "pack"}, h264_depayload)
            if ts != pkt.pts:
                out.fail("h264-pack-timestamp", f"pts {pkt.pts} at 1/90000 became timestamp {ts}", desc)
        if out.want_sample():
            out.sample(desc | {"payload_sizes": [len(p) for p in payloads][:20]})


class Interleaver:
    """Iterator over the NAL units of stream 1 which, when asked for its k-th unit, first lets a complete packetisation of
    stream 2 run on another encoder - the state a thread switch at that point produces when two senders encode in the
    executor's threads.  Both results must equal what each stream gives on its own."""

    def __init__(self, nals, k, other):
        self.it = iter(nals)
        self.k = k
        self.n = 0
        self.other = other
        self.other_result = None

    def __iter__(self):
        return self

    def __next__(self):
        if self.n == self.k and self.other_result is None:
            self.other_result = self.other()
        self.n += 1
        return next(self.it)


def case_interleaved(rng, out):
    from aiortc.codecs.h264 import H264Encoder

    for _ in range(20):
        small = lambda: make_nal(rng, rng.choice([2, 3, 10, 100, 140, 320, 640]))
        s1 = [small() if rng.random() < 0.8 else make_nal(rng, nal_size(rng)) for _ in range(rng.randint(2, 12))]
        s2 = [small() if rng.random() < 0.8 else make_nal(rng, nal_size(rng)) for _ in range(rng.randint(1, 12))]
        desc = {"kind": "h264-interleaved", "sizes_1": [len(n) for n in s1], "sizes_2": [len(n) for n in s2]}
        try:
            alone1 = H264Encoder()._packetize(list(s1))
            alone2 = H264Encoder()._packetize(list(s2))
            k = rng.randint(1, len(s1))
            inter = Interleaver(s1, k, lambda: H264Encoder()._packetize(list(s2)))
            got1 = H264Encoder()._packetize(inter)
            got2 = inter.other_result
        except Exception as exc:
            out.fail("h264-packetize-raises", f"{type(exc).__name__}: {exc}", desc, exc)
            continue
        out.checked()
        out.counters["interleaved_packetisations"] += 1
        if got2 is None:
            continue
        if got1 != alone1 or got2 != alone2:
            which = "the suspended one" if got1 != alone1 else "the one that ran in between"
            out.fail("h264-interleaving-changes-output", f"two packetisations interleaved at NAL unit {k} of the first: {which} differs from its "
                     f"result alone ({[len(p) for p in got1][:8]} vs {[len(p) for p in alone1][:8]})", desc | {"k": k})


def case_vp8(rng, out, enum_range=None):
    import av
    from aiortc.codecs.vpx import Vp8Encoder, VpxPayloadDescriptor, vp8_depayload

    enc = Vp8Encoder()
    sizes = list(enum_range) if enum_range is not None else []
    if enum_range is None:
        for _ in range(40):
            r = rng.random()
            if r < 0.3:
                sizes.append(rng.choice([0, 1, 2, 1295, 1296, 1297, 1298, 1299, 1300, 1301]))
            elif r < 0.7:
                k = rng.randint(1, 46)
                sizes.append(k * rng.choice([1297, 1298]) + rng.choice([-1, 0, 1]))
            elif r < 0.75:
                sizes.append(60000)
            else:
                sizes.append(rng.randint(0, 8000))
    for n in sizes:
        buf = rng.randbytes(n)
        pid = rng.choice([0, 1, 126, 127, 128, 129, 255, 256, 32766, 32767, rng.randrange(1 << 15)])
        desc = {"kind": "vp8", "size": n, "picture_id": pid}
        try:
            if rng.random() < 0.5:
                payloads = enc._packetize(buf, pid)
            else:
                enc.picture_id = pid
                pkt = av.Packet(buf)
                pkt.pts = 3000
                pkt.time_base = fractions.Fraction(1, 90000)
                payloads, ts = enc.pack(pkt)
                if enc.picture_id != (pid + 1) % (1 << 15):
                    out.fail("vp8-picture-id-step", f"picture id after {pid} is {enc.picture_id}", desc)
        except Exception as exc:
            out.fail("vp8-packetize-raises", f"{type(exc).__name__}: {exc}", desc, exc)
            continue
        out.counters["sequences_checked"] += 1
        out.counters["payloads_checked"] += len(payloads)
        big = [len(p) for p in payloads if len(p) > PACKET_MAX]
        if big:
            out.fail("vp8-payload-too-big", f"payload sizes {big[:4]} > {PACKET_MAX}", desc)
        try:
            got = b"".join(vp8_depayload(p) for p in payloads)
            ds = [VpxPayloadDescriptor.parse(p)[0] for p in payloads]
        except Exception as exc:
            out.fail("vp8-depayload-raises", f"{type(exc).__name__}: {exc}", desc, exc)
            continue
        if got != buf:
            out.fail("vp8-bitstream-differs", f"depayloaded {len(got)} bytes != buffer {len(buf)} bytes", desc)
        for i, d in enumerate(ds):
            if (d.partition_start, d.partition_id) != ((1 if i == 0 else 0), 0):
                out.fail("vp8-partition-start", f"payload {i}: S={d.partition_start} PID={d.partition_id}", desc)
            if d.picture_id != pid:
                out.fail("vp8-picture-id", f"payload {i} carries picture id {d.picture_id}, frame has {pid}", desc)
        out.distinct(("vp8", size_class(n), pid < 128, len(payloads) > 1))
        if out.want_sample():
            out.sample(desc | {"payload_sizes": [len(p) for p in payloads][:20]})


def case_descriptor(rng, out, index):
    from aiortc.codecs.vpx import VpxPayloadDescriptor

    lo = (index * 2048) % (1 << 15)  # 16 cases tile the 15-bit range
    pids = [None] + [(lo + i) % (1 << 15) for i in range(2048)]
    for pid in pids:
        d = VpxPayloadDescriptor(partition_start=rng.randrange(2), partition_id=rng.choice([0, 1, 7, 15]), picture_id=pid,
                                 tl0picidx=rng.choice([None, 0, 255, rng.randrange(256)]),
                                 tid=rng.choice([None, (0, 0), (3, 1), (rng.randrange(4), rng.randrange(2))]),
                                 keyidx=rng.choice([None, 0, 31, rng.randrange(32)]))
        desc = {"kind": "vpx-descriptor", "d": {k: getattr(d, k) for k in ("partition_start", "partition_id", "picture_id", "tl0picidx", "tid", "keyidx")}}
        try:
            raw = bytes(d)
            tail = rng.randbytes(rng.choice([0, 1, 5]))
            back, rest = VpxPayloadDescriptor.parse(raw + tail)
        except Exception as exc:
            out.fail("vpx-descriptor-raises", f"{type(exc).__name__}: {exc}", desc, exc)
            continue
        out.counters["payloads_checked"] += 1
        diffs = [(k, getattr(d, k), getattr(back, k)) for k in ("partition_start", "partition_id", "picture_id", "tl0picidx", "tid", "keyidx")
                 if getattr(d, k) != getattr(back, k)]
        if diffs or rest != tail:
            out.fail("vpx-descriptor-differs", f"{diffs[:3]} remainder {len(rest)} vs {len(tail)}", desc)
        out.distinct(("descr", pid is None, None if pid is None else pid < 128, d.tl0picidx is None, d.tid is None, d.keyidx is None))
    out.counters["sequences_checked"] += 1
    out.sample({"kind": "vpx-descriptor", "picture_ids": [lo, (lo + 2047) % (1 << 15)]})


ENUM_CHUNK = 100  # sizes per enumeration case


def plan(tier):
    # enumeration of sizes 0..5200 needs 53 cases of each codec; both tiers include them completely
    if tier == "thorough":
        return dict(cases=6400, shards=16, timeout=2400, min_nontrivial=400)
    return dict(cases=320, shards=16, timeout=240, min_nontrivial=150)


def run_case(index, rng, tier):
    out = Batch("C16", "c16", checked_counter="sequences_checked")
    n_enum = (5200 // ENUM_CHUNK) + 1
    if index < n_enum:
        lo = index * ENUM_CHUNK
        case_h264(rng, out, enum_range=range(max(2, lo), min(5201, lo + ENUM_CHUNK)))
        out.counters["kind_h264_enum"] += 1
    elif index < 2 * n_enum:
        lo = (index - n_enum) * ENUM_CHUNK
        case_vp8(rng, out, enum_range=range(lo, min(5201, lo + ENUM_CHUNK)))
        out.counters["kind_vp8_enum"] += 1
    elif index < 2 * n_enum + 16:
        case_descriptor(rng, out, index - 2 * n_enum)
        out.counters["kind_descriptor"] += 1
    elif index % 2:
        case_h264(rng, out)
        case_interleaved(rng, out)
        out.counters["kind_h264"] += 1
    else:
        case_vp8(rng, out)
        out.counters["kind_vp8"] += 1
    res = out.result()
    res["evals"] = out.counters.get("sequences_checked", 0)
    return res
