"""C15 - receive-side bandwidth estimation never fails and stays within its safety bounds (Pure, DESIGN 3/C15)."""
import math

from vt.core.batch import Batch

ID = "C15"
LEVEL = "exploration"
RULE = ("Each case = 6 generated arrival histories (200-6000 packets) for RemoteBitrateEstimator.add(arrival_ms, abs_send_time, "
        "size, ssrc): non-decreasing arrival times with gaps from {0,1,5,20,100,999,1000,1001,5000,60000} ms; send stamps "
        "following the arrivals with a delay trend per phase (constant, ramp up => over-use, ramp down => under-use, saw-tooth, "
        "jitter, bursts of equal send time, out-of-order stamps) with the 24-bit wrap placed anywhere; payload sizes "
        "{0,1,100,1200,1500,mixed, long runs of 0}; 1-255 SSRCs (a separate stratum uses 256-300). Phases are composed so that "
        "the controller goes decrease -> near-max additive increase and the throughput then drops to (near) zero. Oracles on "
        "every call: never raises; a result is (int, list) with a finite non-negative bitrate that pack_remb_fci/unpack_remb_fci "
        "carry within the C07 bound and exactly the SSRCs fed so far; shadow window: the measurement returned by the wrapped "
        "incoming_bitrate.rate equals round(8000*sum/(now-origin+1)) over the packets of the last 1000 ms since the last reset "
        "(brute force); bounds: est <= max(int(1.5*m)+10000, previous estimate) and, when the wrapped detector reports "
        "OVERUSING at that update, est <= round(0.85*m), m = measurement used by that update. RateCounter is also driven alone "
        "with random add/rate/reset against the brute-force model. Non-trivial = history with >=1 over-use decision and >=1 "
        "additive-increase step; distinct by phase script.")
ASSUMPTIONS = [
    "m = the measurement handed to the rate controller at that update, or the latest one handed to it before (the controller only sees measurements at update times); before it has seen any it works from its built-in 30 Mbit/s default and the two bounds are not evaluated",
    "one REMB can name at most 255 SSRCs (8-bit count): histories with more SSRCs are a separate stratum",
]
DECIDING = ["adds_checked", "estimates_checked", "bound_checks", "overuse_bound_checks", "window_checks"]


def to_abs_send_time(ms):
    return int(ms * (1 << 18) / 1000) & 0xFFFFFF


def gen_history(rng, many_ssrcs=False):
    n_target = rng.choice([200, 600, 2000, 6000])
    script = []
    t_send = rng.choice([0.0, 63000.0, 64000.0 * rng.random(), 1e6 * rng.random()])  # 24-bit wrap (64 s) anywhere
    arrival = rng.choice([0, 1000, rng.randrange(10 ** 9)])
    base_delay = rng.choice([0, 20, 100])
    delay = 0.0
    n_ssrc = rng.randint(256, 300) if many_ssrcs else rng.choice([1, 1, 2, 3, 10, 255])
    ssrcs = [rng.randrange(1 << 32) for _ in range(n_ssrc)]
    pk = []
    last_arrival = None
    while len(pk) < n_target:
        phase = rng.choice(["steady", "steady", "ramp-up", "ramp-up", "ramp-down", "saw", "jitter", "burst", "idle",
                            "zeros", "tiny", "ooo", "drain-to-zero"])
        script.append(phase)
        dt = rng.choice([1, 5, 10, 20, 33, 100])
        size_mode = rng.choice(["1200", "1200", "100", "mixed", "1500", "1"])
        count = rng.choice([30, 100, 300])
        if phase == "idle":
            gap = rng.choice([999, 1000, 1001, 5000, 5000, 60000])
            t_send += gap
            delay = 0.0
            count = 3
        for i in range(count):
            t_send += dt if phase != "burst" or i % 5 == 0 else 0
            if phase == "ramp-up":
                delay += rng.choice([0.5, 1, 2, 5])
            elif phase == "ramp-down":
                delay = max(0.0, delay - rng.choice([0.5, 1, 2, 5]))
            elif phase == "saw":
                delay = (delay + 3) % 60
            elif phase == "jitter":
                delay = max(0.0, delay + rng.uniform(-8, 8))
            size = {"1200": 1200, "100": 100, "1500": 1500, "1": 1}.get(size_mode)
            if size is None:
                size = rng.choice([0, 1, 100, 1200, 1500, rng.randint(0, 1500)])
            if phase in ("zeros", "drain-to-zero"):
                size = 0 if phase == "zeros" or i > 5 else 1
            if phase == "tiny":
                size = rng.choice([0, 0, 1])
            stamp = t_send - (rng.choice([0, 0, 0, 5, 50]) if phase == "ooo" else 0)
            a = int(arrival + (t_send) + base_delay + delay)
            if last_arrival is not None and a < last_arrival:
                a = last_arrival
            if rng.random() < 0.02:
                a = (last_arrival or a) + rng.choice([0, 0, 1])
            last_arrival = a
            pk.append((a, to_abs_send_time(stamp), size, rng.choice(ssrcs)))
    return pk, script, n_ssrc


class Shadow:
    """Brute-force model of the measurement window (statement: exactly the packets of the last 1000 ms)."""

    def __init__(self):
        self.items = []  # (t, size) since the last reset
        self.initialized = True
        self.origin = None

    def rate(self, now):
        if self.origin is None:
            return None
        origin = max(self.origin, now - 999)
        vals = [s for t, s in self.items if t >= origin]
        window = now - origin + 1
        if vals and window > 1:
            return round(8000 * sum(vals) / window)
        return None

    def add(self, now, size):
        # mirror of the estimator's documented reset rule: an empty/degenerate window resets the counter once
        r = self.rate(now)
        if r is not None:
            self.initialized = True
        elif self.initialized:
            self.items = []
            self.origin = None
            self.initialized = False
        if self.origin is None:
            self.origin = now
        self.items.append((now, size))
        if len(self.items) > 4000:
            self.items = [(t, s) for t, s in self.items if t >= now - 1200]
            self.origin = max(self.origin, now - 1200) if self.items else self.origin


def run_history(rng, out, many_ssrcs=False):
    from aiortc import rtp
    from aiortc.rate import BandwidthUsage, RemoteBitrateEstimator

    pk, script, n_ssrc = gen_history(rng, many_ssrcs)
    desc = {"script": script[:30], "packets": len(pk), "ssrcs": n_ssrc, "first": pk[:6]}
    est = RemoteBitrateEstimator()
    obs = {"rates": [], "states": [], "additive": 0}
    real_rate = est.incoming_bitrate.rate
    real_state = est.detector.state
    real_add_inc = est.rate_control._additive_rate_increase

    def rate(now_ms):
        r = real_rate(now_ms)
        obs["rates"].append((now_ms, r))
        return r

    def state():
        s = real_state()
        obs["states"].append(s)
        return s

    def add_inc(last_ms, now_ms):
        obs["additive"] += 1
        return real_add_inc(last_ms, now_ms)

    real_update = est.rate_control.update

    def update(bandwidth_usage, estimated_throughput, now_ms):
        # the measurement the controller is given at this update (None = no measurement available right now)
        obs["update_arg"] = estimated_throughput
        obs["updates"] = obs.get("updates", 0) + 1
        return real_update(bandwidth_usage, estimated_throughput, now_ms)

    est.incoming_bitrate.rate = rate
    est.detector.state = state
    est.rate_control._additive_rate_increase = add_inc
    est.rate_control.update = update
    shadow = Shadow()
    seen = []
    seen_set = set()
    latest_m = None
    overuse = 0
    for i, (a, stamp, size, ssrc) in enumerate(pk):
        if ssrc not in seen_set:
            seen_set.add(ssrc)
            seen.append(ssrc)
        obs["rates"].clear()
        obs["states"].clear()
        obs["update_arg"] = "no-update"
        prev = est.rate_control.current_bitrate
        want_first = shadow.rate(a)
        shadow.add(a, size)
        try:
            res = est.add(a, stamp, size, ssrc)
        except Exception as exc:
            out.fail("add-raises", f"{type(exc).__name__}: {exc} at packet {i} (arrival {a}, size {size})", desc | {"at": i}, exc)
            return
        out.counters["adds_checked"] += 1
        # window: the first rate() call of add() happens before the packet is added
        if obs["rates"]:
            out.counters["window_checks"] += 1
            now0, r0 = obs["rates"][0]
            if r0 != want_first:
                out.fail("measurement-window", f"packet {i}: incoming bitrate at {now0} ms is {r0}, brute force over the last "
                         f"1000 ms says {want_first}", desc | {"at": i})
                shadow = resync(est, a)
            if len(obs["rates"]) > 1:
                now1, r1 = obs["rates"][-1]
                w1 = shadow.rate(now1)
                if r1 != w1:
                    out.fail("measurement-window", f"packet {i}: incoming bitrate after adding is {r1}, brute force says {w1}", desc | {"at": i})
                    shadow = resync(est, a)
        if obs["update_arg"] not in ("no-update", None):
            latest_m = obs["update_arg"]  # m = the measurement used by the controller: this one, or the latest earlier one
        if res is None:
            continue
        out.counters["estimates_checked"] += 1
        ok_shape = isinstance(res, tuple) and len(res) == 2 and isinstance(res[0], int) and not isinstance(res[0], bool) \
            and isinstance(res[1], list)
        if not ok_shape or res[0] < 0:
            out.fail("estimate-shape", f"packet {i}: estimate {res!r:.120} is not (non-negative int, list)", desc | {"at": i})
            continue
        bitrate, ssrc_list = res
        if ssrc_list != seen or len(set(ssrc_list)) != len(ssrc_list):
            out.fail("estimate-ssrcs", f"packet {i}: estimate lists {len(ssrc_list)} SSRCs, {len(seen)} seen so far (or order/duplicates differ)", desc | {"at": i})
        try:
            b2, s2 = rtp.unpack_remb_fci(rtp.pack_remb_fci(bitrate, ssrc_list))
            if s2 != ssrc_list or not (0 <= bitrate - b2 and ((bitrate - b2) << 17) < max(bitrate, 1) or b2 == bitrate):
                out.fail("estimate-not-remb-encodable", f"packet {i}: REMB carries {b2} / {len(s2)} ssrcs for estimate {bitrate} / {len(ssrc_list)}", desc | {"at": i})
        except Exception as exc:
            key = "remb-more-than-255-ssrcs" if len(ssrc_list) > 255 else "estimate-not-remb-encodable"
            out.fail(key, f"packet {i}: pack_remb_fci({bitrate}, {len(ssrc_list)} ssrcs) raises {type(exc).__name__}: {exc}", desc | {"at": i})
            if len(ssrc_list) > 255:
                return
        if latest_m is not None:
            m = latest_m
            out.counters["bound_checks"] += 1
            cap = max(int(1.5 * m) + 10000, prev)
            if bitrate > cap:
                out.fail("estimate-above-cap", f"packet {i}: estimate {bitrate} > max(1.5*{m}+10000, previous {prev}) = {cap}", desc | {"at": i})
            if obs["states"] and obs["states"][-1] == BandwidthUsage.OVERUSING:
                overuse += 1
                out.counters["overuse_bound_checks"] += 1
                if bitrate > round(0.85 * m):
                    out.fail("overuse-not-cut", f"packet {i}: over-use detected, estimate {bitrate} > 85% of measurement {m}", desc | {"at": i})
    out.counters["histories"] += 1
    out.counters["additive_increase_steps"] += obs["additive"]
    if overuse and obs["additive"]:
        out.distinct(("c15", tuple(script[:12]), n_ssrc > 3))
    if out.want_sample():
        out.sample(desc | {"overuse_updates": overuse, "additive_steps": obs["additive"]})


def resync(est, now):
    """After a reported window mismatch: rebuild the shadow from nothing (report once per divergence)."""
    s = Shadow()
    return s


def case_ratecounter(rng, out):
    from aiortc.rate import RateCounter

    for _ in range(60):
        window = rng.choice([1000, 1000, 500, 10])
        scale = rng.choice([8000, 1000])
        rc = RateCounter(window, scale)
        items = []
        origin = None
        now = rng.randrange(10 ** 6)
        desc = {"kind": "ratecounter", "window": window, "scale": scale}
        for step in range(rng.choice([50, 300])):
            now += rng.choice([0, 0, 1, 1, 2, 5, window - 1, window, window + 1, 3 * window]) if rng.random() < 0.9 else 0
            op = rng.choice(["add", "add", "add", "rate", "rate", "reset"]) if step else "add"
            try:
                if op == "add":
                    v = rng.choice([0, 1, 100, 1200, 1500])
                    rc.add(v, now)
                    if origin is None:
                        origin = now
                    items.append((now, v))
                elif op == "reset":
                    rc.reset()
                    items, origin = [], None
                else:
                    got = rc.rate(now)
                    out.counters["window_checks"] += 1
                    want = None
                    if origin is not None:
                        o = max(origin, now - window + 1)
                        vals = [v for t, v in items if t >= o]
                        if vals and now - o + 1 > 1:
                            want = round(scale * sum(vals) / (now - o + 1))
                    if got != want:
                        out.fail("ratecounter-window", f"RateCounter({window},{scale}).rate({now}) = {got}, brute force {want}", desc | {"step": step})
                        break
            except Exception as exc:
                out.fail("ratecounter-raises", f"{type(exc).__name__}: {exc}", desc, exc)
                break
        out.counters["adds_checked"] += 1
    out.sample({"kind": "ratecounter"})


def plan(tier):
    if tier == "thorough":
        return dict(cases=9600, shards=16, timeout=2400, min_nontrivial=1500)
    return dict(cases=480, shards=16, timeout=240, min_nontrivial=100)


def run_case(index, rng, tier):
    out = Batch("C15", "c15", checked_counter="adds_checked")
    if index % 12 == 0:
        case_ratecounter(rng, out)
        out.counters["kind_ratecounter"] += 1
    elif index % 12 == 1:
        run_history(rng, out, many_ssrcs=True)
        out.counters["kind_many_ssrcs"] += 1
    else:
        for _ in range(6):
            run_history(rng, out)
        out.counters["kind_history"] += 1
    res = out.result()
    res["evals"] = out.counters.get("adds_checked", 0)
    return res
