"""C14 - signalling follows the JSEP state machine; illegal calls have no side effects (rig R-PC, no connectivity wait)."""
import asyncio
import itertools
import re

from vt.core.batch import Batch

ID = "C14"
LEVEL = "exploration"
RULE = ("Each sequence runs on a fresh pair of real RTCPeerConnections with the same media shape on both sides. Alphabet per "
        "peer (10 symbols, 20 in all): createOffer, createAnswer, setLocal(fresh offer), setLocal(answer), setLocal(None), "
        "setRemote(offer of the other peer), setRemote(answer of the other peer), setRemote(mismatched answer: m-section removed "
        "/ reordered / mid changed), setRemote(defective: ice-ufrag or ice-pwd removed, rtcp-mux removed, setup:actpass in an "
        "answer), close. Descriptions come from the other peer's real output when it has one, otherwise from a cache of "
        "well-formed ones for that media shape. A 4-state automaton per peer gives the admissible outcomes of every call "
        "(InvalidStateError / ValueError / success + next state); after every call signalingState must equal the model, on a "
        "raised error (signalingState, localDescription, remoteDescription) must be unchanged and no signalingstatechange may "
        "have fired; the state read inside every signalingstatechange event must equal the model's; closed is absorbing. "
        "Enumeration: ALL sequences up to length 3 (quick) / 4 (thorough) on the shape audio+datachannel, plus random sequences "
        "of length 5-12 over four shapes. Distinct/non-trivial = distinct sequences containing >= 1 illegal call after >= 1 "
        "legal state change."
        ' Race stratum: setLocalDescription(offer) is started and, after 0-30 loop yields, a setRemoteDescription is made on the same peer; the outcome pair and the final state must be those of one of the two sequential orders (two mechanisms of the unchanged tree are listed known findings).')
ASSUMPTIONS = [
    "createOffer in have-remote-offer is not classified by the statement: either outcome is accepted, the no-side-effect clause is still checked",
    "when a call is both illegal in the state and carries a bad description, InvalidStateError and ValueError are both accepted",
    "real aioice gathering on local interfaces (real time); no connectivity is awaited",
]
DECIDING = ["calls_checked", "illegal_calls_checked", "sequences"]
EXPLANATION = "exhaustive only for the bound: all call sequences up to length 3 (quick) / 4 (thorough) over the 20-symbol alphabet on the media shape audio + data channel"

SYMS = ["createOffer", "createAnswer", "setLocalOffer", "setLocalAnswer", "setLocalNone", "setRemoteOffer", "setRemoteAnswer",
        "setRemoteMismatched", "setRemoteDefective", "close"]
ALPHABET = [(p, s) for p in "AB" for s in SYMS]
SHAPES = {
    "audio+dc": [("t", "audio", "sendrecv", "addTransceiver-kind", None), ("dc", "chat", None, False)],
    "video": [("t", "video", "sendrecv", "addTransceiver-kind", None)],
    "dc": [("dc", "chat", None, False)],
    "audio+video": [("t", "audio", "sendrecv", "addTransceiver-kind", None), ("t", "video", "sendonly", "addTransceiver-kind", None)],
}
_CACHE = {}


def side(shape):
    return {"bundle": "balanced", "always_dc": False, "items": list(SHAPES[shape])}


async def _reference(shape):
    from vt.rigs.pc import Peer, negotiate

    a, b = Peer("A", side(shape)), Peer("B", side(shape))
    try:
        t = await negotiate(a, b)
        return {"offer": t["offer"], "answer": t["answer"]}
    finally:
        await a.pc.close()
        await b.pc.close()


async def cached(shape):
    if shape not in _CACHE:
        _CACHE[shape] = await _reference(shape)
    return _CACHE[shape]


def split_sections(t):
    lines = t.split("\r\n")
    head, secs = [], []
    for l in lines:
        if l.startswith("m="):
            secs.append([l])
        elif secs:
            secs[-1].append(l)
        else:
            head.append(l)
    if secs and secs[-1] and secs[-1][-1] == "":
        secs[-1].pop()
    return head, secs


def join_sections(head, secs):
    return "\r\n".join(head + [l for s in secs for l in s]) + "\r\n"


def mismatched(answer, variant):
    head, secs = split_sections(answer)
    if len(secs) >= 2 and variant % 3 == 0:
        secs = secs[:-1]
    elif len(secs) >= 2 and variant % 3 == 1:
        secs = list(reversed(secs))
    else:
        secs[0] = [re.sub(r"^a=mid:.*$", "a=mid:zz9", l) for l in secs[0]]
    mids = [next((l[6:] for l in s if l.startswith("a=mid:")), "") for s in secs]
    head = [("a=group:BUNDLE " + " ".join(mids)) if l.startswith("a=group:BUNDLE") else l for l in head]
    return join_sections(head, secs)


def defective(text, typ, variant):
    head, secs = split_sections(text)
    v = variant % (5 if typ == "answer" else 3)
    rtp = [i for i, s in enumerate(secs) if s[0].startswith(("m=audio", "m=video"))]
    if v == 2 and not rtp:
        v = 0
    if v == 0:
        secs = [[l for l in s if not l.startswith("a=ice-ufrag:")] for s in secs]
    elif v == 1:
        secs = [[l for l in s if not l.startswith("a=ice-pwd:")] for s in secs]
    elif v == 2:
        secs = [[l for l in s if l != "a=rtcp-mux"] if i in rtp else s for i, s in enumerate(secs)]
    elif v == 3:
        secs = [[("a=setup:actpass" if l.startswith("a=setup:") else l) for l in s] for s in secs]
    else:
        secs = [[l for l in s if not l.startswith("a=setup:")] for s in secs]  # no DTLS role at all
    return join_sections(head, secs)


class PeerModel:
    def __init__(self):
        self.state = "stable"
        self.last_local = None  # type of the last successfully applied local description


def expected(model, sym, desc_type=None):
    """-> (set of admissible error names or {'ok'}, next state if ok)."""
    st = model.state
    if st == "closed":
        if sym == "close":
            return {"ok"}, "closed"
        return {"InvalidStateError"}, None
    if sym == "close":
        return {"ok"}, "closed"
    if sym == "createOffer":
        if st == "have-remote-offer":
            return {"ok", "InvalidStateError"}, st
        return {"ok"}, st
    if sym == "createAnswer":
        return ({"ok"}, st) if st == "have-remote-offer" else ({"InvalidStateError"}, None)
    if sym == "setLocalOffer":
        return ({"ok"}, "have-local-offer") if st in ("stable", "have-local-offer") else ({"InvalidStateError"}, None)
    if sym == "setLocalAnswer":
        return ({"ok"}, "stable") if st == "have-remote-offer" else ({"InvalidStateError"}, None)
    if sym == "setLocalNone":
        return ({"ok"}, "stable") if st == "have-remote-offer" else ({"ok"}, "have-local-offer")
    if sym == "setRemoteOffer":
        return ({"ok"}, "have-remote-offer") if st in ("stable", "have-remote-offer") else ({"InvalidStateError"}, None)
    if sym == "setRemoteAnswer":
        return ({"ok"}, "stable") if st == "have-local-offer" else ({"InvalidStateError"}, None)
    if sym == "setRemoteMismatched":
        return ({"ValueError"}, None) if st == "have-local-offer" else ({"InvalidStateError", "ValueError"}, None)
    if sym == "setRemoteDefective":
        admits = (desc_type == "offer" and st in ("stable", "have-remote-offer")) or (desc_type == "answer" and st == "have-local-offer")
        return ({"ValueError"}, None) if admits else ({"InvalidStateError", "ValueError"}, None)
    raise AssertionError(sym)


def snapshot(pc):
    ld, rd = pc.localDescription, pc.remoteDescription
    return (pc.signalingState, None if ld is None else (ld.type, ld.sdp), None if rd is None else (rd.type, rd.sdp))


async def run_sequence(seq, shape, out, variant):
    from aiortc import RTCSessionDescription
    from vt.rigs.pc import Peer

    ref = await cached(shape)
    peers = {"A": Peer("A", side(shape)), "B": Peer("B", side(shape))}
    models = {"A": PeerModel(), "B": PeerModel()}
    events = {"A": [], "B": []}
    for n in "AB":
        pc = peers[n].pc
        pc.on("signalingstatechange", lambda n=n, pc=pc: events[n].append(pc.signalingState))
    desc = {"shape": shape, "sequence": [f"{p}.{s}" for p, s in seq]}
    legal_changes = 0
    illegal_after_change = 0
    try:
        for step, (p, sym) in enumerate(seq):
            x, y = peers[p], peers["B" if p == "A" else "A"]
            mx, my = models[p], models["B" if p == "A" else "A"]
            pc = x.pc
            dtype = None
            before = snapshot(pc)
            n_events = len(events[p])
            err = None
            try:
                if sym == "createOffer":
                    await pc.createOffer()
                elif sym == "createAnswer":
                    await pc.createAnswer()
                elif sym == "setLocalOffer":
                    await pc.setLocalDescription(await pc.createOffer())
                elif sym == "setLocalAnswer":
                    if mx.state == "have-remote-offer":
                        d = await pc.createAnswer()
                    else:
                        d = RTCSessionDescription(sdp=ref["answer"], type="answer")
                    await pc.setLocalDescription(d)
                elif sym == "setLocalNone":
                    await pc.setLocalDescription()
                elif sym in ("setRemoteOffer", "setRemoteAnswer", "setRemoteMismatched", "setRemoteDefective"):
                    yl = y.pc.localDescription if my.state != "closed" else None
                    real_offer = yl.sdp if (yl is not None and yl.type == "offer" and my.state == "have-local-offer") else None
                    real_answer = yl.sdp if (yl is not None and yl.type == "answer" and my.last_local == "answer") else None
                    if sym == "setRemoteOffer":
                        d = RTCSessionDescription(sdp=real_offer or ref["offer"], type="offer")
                    elif sym == "setRemoteAnswer":
                        d = RTCSessionDescription(sdp=real_answer or ref["answer"], type="answer")
                    elif sym == "setRemoteMismatched":
                        d = RTCSessionDescription(sdp=mismatched(real_answer or ref["answer"], variant + step), type="answer")
                    else:
                        dtype = "answer" if mx.state == "have-local-offer" or (variant + step) % 2 else "offer"
                        base = (real_answer or ref["answer"]) if dtype == "answer" else (real_offer or ref["offer"])
                        d = RTCSessionDescription(sdp=defective(base, dtype, variant + step), type=dtype)
                    await pc.setRemoteDescription(d)
                else:
                    await pc.close()
            except Exception as exc:
                err = exc
            out.counters["calls_checked"] += 1
            admissible, nxt = expected(mx, sym, dtype)
            got = "ok" if err is None else type(err).__name__
            d2 = desc | {"step": step, "call": f"{p}.{sym}", "state_before": mx.state, "outcome": got if err is None else f"{got}: {err}"[:160]}
            if got not in admissible:
                out.fail(f"wrong-outcome:{sym}:{mx.state}", f"{p}.{sym} in state {mx.state}: got {d2['outcome']}, the automaton admits {sorted(admissible)}", d2)
                return
            after = snapshot(pc)
            new_events = events[p][n_events:]
            if err is not None:
                out.counters["illegal_calls_checked"] += 1
                if legal_changes:
                    illegal_after_change += 1
                if after != before:
                    changed = [n_ for n_, a, b in zip(("signalingState", "localDescription", "remoteDescription"), before, after) if a != b]
                    out.fail("side-effect-of-rejected-call:" + changed[0], f"{p}.{sym} raised {got} in state {mx.state} but changed {changed}", d2)
                    return
                if new_events:
                    out.fail("event-during-rejected-call", f"{p}.{sym} raised {got} but signalingstatechange fired ({new_events})", d2)
                    return
            else:
                if sym == "setLocalNone":
                    mx.last_local = "answer" if mx.state == "have-remote-offer" else "offer"
                elif sym == "setLocalOffer":
                    mx.last_local = "offer"
                elif sym == "setLocalAnswer":
                    mx.last_local = "answer"
                if nxt != mx.state:
                    legal_changes += 1
                mx.state = nxt
                if pc.signalingState != mx.state:
                    out.fail(f"wrong-state-after:{sym}", f"after {p}.{sym}: signalingState={pc.signalingState}, automaton says {mx.state}", d2)
                    return
                if any(e != mx.state for e in new_events):
                    out.fail("event-with-wrong-state", f"signalingstatechange during {p}.{sym} read state {new_events}, automaton says {mx.state}", d2)
                    return
            # closed is absorbing, and the other peer must not have moved
            for q in "AB":
                if peers[q].pc.signalingState != models[q].state:
                    out.fail("state-drift", f"after {p}.{sym}: {q}.signalingState={peers[q].pc.signalingState}, automaton says {models[q].state}", d2)
                    return
    finally:
        for n in "AB":
            try:
                await asyncio.wait_for(peers[n].pc.close(), 10)
            except Exception:
                pass
    out.counters["sequences"] += 1
    if illegal_after_change:
        out.distinct(("seq", shape, tuple(seq)))


async def run_race(shape, prefix, second, yields, out):
    """Two calls in flight on one peer: setLocalDescription(offer) is started and, while it is suspended (it waits for ICE
    gathering), a second call is made.  JSEP's automaton is sequential, so the outcome pair and the final state must be those
    of one of the two orders in which the calls could have taken effect (linearizability against the 4-state model)."""
    import copy

    from aiortc import RTCSessionDescription
    from vt.rigs.pc import Peer

    ref = await cached(shape)
    x = Peer("A", side(shape))
    model = PeerModel()
    desc = {"kind": "race", "shape": shape, "prefix": prefix, "first": "setLocalOffer", "second": second, "yields_before_second": yields}
    pc = x.pc
    try:
        if prefix == "have-local-offer":
            await pc.setLocalDescription(await pc.createOffer())
            model.state = "have-local-offer"
        elif prefix == "have-remote-offer":
            await pc.setRemoteDescription(RTCSessionDescription(sdp=ref["offer"], type="offer"))
            model.state = "have-remote-offer"
        if pc.signalingState != model.state:
            out.fail("wrong-state-after:prefix", f"prefix {prefix}: signalingState={pc.signalingState}", desc)
            return
        try:
            offer = await pc.createOffer()
        except Exception:
            offer = RTCSessionDescription(sdp=ref["offer"], type="offer")
        d2 = RTCSessionDescription(sdp=ref["offer"], type="offer") if second == "setRemoteOffer" else RTCSessionDescription(sdp=ref["answer"], type="answer")
        res = {}

        async def first():
            try:
                await pc.setLocalDescription(offer)
                res[0] = "ok"
            except Exception as exc:
                res[0] = type(exc).__name__

        t = asyncio.ensure_future(first())
        for _ in range(yields):
            await asyncio.sleep(0)
        overlapped = not t.done()
        try:
            await pc.setRemoteDescription(d2)
            res[1] = "ok"
        except Exception as exc:
            res[1] = type(exc).__name__
        await asyncio.wait_for(t, 30)
        out.counters["calls_checked"] += 2
        out.counters["races_checked"] += 1
        out.counters["races_overlapping"] += 1 if overlapped else 0
        final = pc.signalingState
        admitted = []
        for order in ((0, 1), (1, 0)):
            m = copy.copy(model)
            outcome = {}
            for k in order:
                sym = "setLocalOffer" if k == 0 else second
                adm, nxt = expected(m, sym)
                if "ok" in adm:
                    outcome[k] = {"ok"}
                    m.state = nxt
                else:
                    outcome[k] = adm
            admitted.append((outcome, m.state))
        if not any(res[0] in o[0] and res[1] in o[1] and final == st for o, st in admitted):
            key = f"race-not-linearizable:{second}:{model.state}"
            if yields == 0 and res[0] == "ok" and res[1] == "ok":
                # known mechanism: setRemoteDescription ran first, validated the state and was suspended before committing
                key = "overlap-remote-description-not-atomic"
            elif yields > 0 and overlapped and second == "setRemoteAnswer" and res[1] == "AttributeError" and model.state == "stable":
                # known mechanism: state already have-local-offer, the pending local description is stored only after gathering
                key = "overlap-answer-before-local-offer-stored"
            out.fail(key, f"from {model.state}: setLocalDescription(offer) -> {res[0]}, {second} made while it was "
                     f"{'suspended' if overlapped else 'already finished'} -> {res[1]}, final state {final}; the automaton admits only "
                     f"{[(sorted(o[0]), sorted(o[1]), st) for o, st in admitted]}", desc | {"outcomes": [res[0], res[1]], "final": final})
        if overlapped:
            out.distinct(("race", shape, prefix, second, yields))
    finally:
        try:
            await asyncio.wait_for(pc.close(), 10)
        except Exception:
            pass


def enum_sequences(maxlen):
    for n in range(1, maxlen + 1):
        for seq in itertools.product(ALPHABET, repeat=n):
            yield seq


N_ENUM_CASES = {"quick": 40, "thorough": 400}


def plan(tier):
    if tier == "thorough":
        return dict(cases=400 + 1600, shards=16, timeout=3400, min_nontrivial=1000, case_alarm=1200)
    return dict(cases=40 + 120, shards=16, timeout=400, min_nontrivial=300, case_alarm=300)


def run_case(index, rng, tier):
    from vt.rigs.pc import ensure_host_addresses, run_async

    ensure_host_addresses()
    out = Batch("C14", "c14", checked_counter="calls_checked")
    nenum = N_ENUM_CASES[tier]
    if index < nenum:
        maxlen = 4 if tier == "thorough" else 3

        async def go():
            for i, seq in enumerate(enum_sequences(maxlen)):
                if i % nenum == index:
                    await run_sequence(seq, "audio+dc", out, i)
        run_async(go(), timeout=3000)
        out.counters["kind_enum"] += 1
        out.sample({"kind": "enumeration", "max_length": maxlen, "slice": f"{index}/{nenum}", "alphabet": len(ALPHABET)})
    else:
        async def go():
            for k in range(30):
                shape = rng.choice(list(SHAPES))
                seq = tuple(rng.choice(ALPHABET) if rng.random() < 0.85 else (rng.choice("AB"), rng.choice(SYMS[2:7]))
                            for _ in range(rng.randint(5, 12)))
                await run_sequence(seq, shape, out, rng.randrange(1000))
                if out.want_sample():
                    out.sample({"kind": "random", "shape": shape, "sequence": [f"{p}.{s}" for p, s in seq]})
            for _ in range(6):
                await run_race(rng.choice(list(SHAPES)), rng.choice(["stable", "stable", "have-local-offer", "have-remote-offer"]),
                               rng.choice(["setRemoteOffer", "setRemoteAnswer"]), rng.choice([0, 1, 1, 2, 3, 5, 10, 30]), out)
        run_async(go(), timeout=3000)
        out.counters["kind_random"] += 1
    res = out.result()
    res["evals"] = out.counters.get("calls_checked", 0)
    return res
