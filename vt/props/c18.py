"""C18 - RTCP receiver reports carry correct loss/jitter figures that always fit the wire (Pure + report path)."""
import types

from vt.core.batch import Batch

ID = "C18"
LEVEL = "exploration"
RULE = ("Statistics cases: per-SSRC arrival histories (200-3000 packets, or sparse histories spanning 1-5 sequence cycles): "
        "start sequence anywhere, frames of 1-4 packets, RTP timestamps advancing per frame with the 32-bit wrap inside the run, "
        "repeated timestamps, adversarial timestamp jumps (+-2^31, alternating extremes), loss (iid / bursts up to 30000), "
        "duplication, reordering within half the sequence space; arrival clock (the harness's time shim) with steady pace, "
        "jitter, stalls and forward jumps up to 4 hours; reports requested at random points. A reference model of RFC 3550 "
        "A.1/A.3/A.8 in Python integers is asked at the same points: packets_received, packets_lost (clamped), fraction_lost per "
        "interval, extended highest sequence number (cycles*65536+max_seq), jitter (Q4 recurrence over successive in-order "
        "packets that start a new timestamp, timestamp differences modulo 2^32). At every report point an RR is built exactly "
        "as RTCRtpReceiver._run_rtcp builds it and must serialise and parse back equal. Report-path cases drive the real "
        "RTCRtpReceiver._run_rtcp in virtual time behind a stub transport and compare every RR seen on the wire with the "
        "model; the RTCP task must survive. Distinct/non-trivial = histories crossing a sequence cycle or the timestamp wrap, "
        "or containing loss and duplication."
        ' In the report path getStats() is called between reports (same figures as the model, next report undisturbed); the wall clock of the statistics histories starts at 0, at a present-day epoch or shortly before clock x rate crosses a multiple of 2^32.'
        ' Half of the report-path runs negotiate RTX and feed retransmissions on the RTX stream: own report block with own figures, primary figures unmoved.')
ASSUMPTIONS = [
    "arrival clock = time.time() of the receiver module, replaced by a scripted clock; forward jumps are bounded by 4 hours (a jump of several days would exceed 32 bits of jitter in any implementation of the recurrence)",
    "jitter is compared on the implementation's reading of A.8: the previous in-order packet is the reference for a packet that starts a new timestamp",
    "report-path cases: DTLS replaced by a stub transport that records what _run_rtcp sends (DTLS/SRTP are C04's business)",
]
DECIDING = ["adds_checked", "reports_checked"]

M32 = 1 << 32


def s32(x):
    x &= M32 - 1
    return x - M32 if x >= 1 << 31 else x


def serial_gt16(a, b):
    return a != b and ((a - b) & 0xFFFF) < 0x8000


class Model:
    def __init__(self, clockrate):
        self.clockrate = clockrate
        self.received = 0
        self.base = None
        self.max = None
        self.cycles = 0
        self.jq4 = 0
        self.last_arr = None
        self.last_ts = None
        self.exp_prior = 0
        self.rec_prior = 0

    def add(self, seq, ts, now):
        self.received += 1
        if self.base is None:
            self.base = seq
        if self.max is None or serial_gt16(seq, self.max):
            arrival = int(now * self.clockrate)
            if self.max is not None and seq < self.max:
                self.cycles += 1
            self.max = seq
            if self.last_ts is not None and ts != self.last_ts:
                d = abs((arrival - self.last_arr) - s32(ts - self.last_ts))
                self.jq4 += d - ((self.jq4 + 8) >> 4)
            self.last_arr = arrival
            self.last_ts = ts

    @property
    def ext_max(self):
        return self.cycles * 65536 + self.max

    @property
    def expected(self):
        return self.ext_max - self.base + 1

    @property
    def lost(self):
        return max(-(1 << 23), min(self.expected - self.received, (1 << 23) - 1))

    def fraction(self):
        ei = self.expected - self.exp_prior
        ri = self.received - self.rec_prior
        self.exp_prior, self.rec_prior = self.expected, self.received
        li = ei - ri
        if ei == 0 or li <= 0:
            return 0
        return (li << 8) // ei


class Clock:
    def __init__(self, t):
        self.t = t

    def time(self):
        return self.t


def gen_history(rng):
    clockrate = rng.choice([90000, 90000, 48000, 8000])
    n = rng.choice([200, 600, 3000])
    seq = rng.choice([rng.randrange(65536), 65536 - rng.randint(1, 200), 0, 65535])
    ts = rng.choice([rng.randrange(M32), M32 - rng.randint(1, 50) * 3000, 0])
    ts_step = rng.choice([3000, 960, 160, 90000])
    now = rng.choice([1.7e9, 1000.0, 1.7e9 + rng.random() * 1e6])
    mode = rng.choice(["benign", "loss", "dup", "reorder", "mixed", "cycles", "ts-adversarial", "clock-jumps", "mixed", "huge-loss"])
    feats = {"mode": mode, "clockrate": clockrate}
    events = []  # (seq, ts, now)
    pk = []
    frame_left = 0
    loss_p = {"loss": 0.1, "mixed": 0.08}.get(mode, 0.0)
    alt = 0
    i = 0
    while len(pk) < n:
        if frame_left == 0:
            frame_left = rng.randint(1, 4)
            if mode == "ts-adversarial" and rng.random() < 0.15:
                alt ^= 1
                ts = (ts + rng.choice([1 << 31, (1 << 31) - 1, -(1 << 31), (M32 - 1) if alt else 1, rng.randrange(M32)])) % M32
                feats["ts_jump"] = True
            else:
                ts = (ts + ts_step) % M32
            if ts < ts_step:
                feats["ts_wrap"] = True
            dt = ts_step / clockrate
            r = rng.random()
            if mode == "clock-jumps" and r < 0.05:
                dt += rng.choice([1.0, 60.0, 3600.0, 4 * 3600.0])
                feats["clock_jump"] = True
            elif r < 0.1:
                dt += rng.random() * 0.2  # stall
            now += dt * rng.choice([1.0, 1.0, 0.5, 1.5])
        frame_left -= 1
        if mode == "huge-loss" and rng.random() < 0.7:
            seq = (seq + rng.choice([20000, 30000, 32000])) & 0xFFFF  # cumulative loss beyond the signed 24-bit range
            feats["burst_loss"] = True
        if mode == "cycles" and rng.random() < 0.02:
            seq = (seq + rng.choice([5000, 20000, 30000])) & 0xFFFF  # burst loss: crosses cycles quickly
            feats["burst_loss"] = True
        pk.append((seq, ts, now))
        seq = (seq + 1) & 0xFFFF
        now += 0.0002 * rng.random()
    # perturb: loss, duplication, reordering (displacement well inside half the sequence space)
    out = []
    for p in pk:
        if rng.random() < loss_p:
            feats["loss"] = True
            continue
        out.append(p)
        if mode in ("dup", "mixed") and rng.random() < 0.08:
            out.append(p)
            feats["dup"] = True
    if mode in ("reorder", "mixed"):
        d = rng.choice([2, 5, 40])
        keyed = sorted(((i + rng.random() * d, i) for i in range(len(out))))
        arr = [out[i] for _, i in keyed]
        # arrival clock stays monotonic: keep the times in order, permute the packets
        times = [p[2] for p in out]
        out = [(a[0], a[1], t) for a, t in zip(arr, times)]
        feats["reorder"] = d
    return clockrate, out, feats


def check_state(st, model, out, desc, i, where):
    got = (st.packets_received, st.cycles + st.max_seq, st.packets_lost, st.jitter)
    want = (model.received, model.ext_max, model.lost, model.jq4 >> 4)
    if got != want:
        names = ("packets_received", "extended highest sequence", "packets_lost", "jitter")
        diffs = [(n, g, w) for n, g, w in zip(names, got, want) if g != w]
        out.fail("stats-differ:" + diffs[0][0].replace(" ", "-"), f"{where} packet {i}: (name, implementation, RFC 3550 model) = {diffs}", desc | {"at": i})
        return False
    return True


def build_report(rtp, st, ssrc):
    """Exactly what RTCRtpReceiver._run_rtcp puts into a report block (see report-path cases for the real thing)."""
    return rtp.RtcpReceiverInfo(ssrc=ssrc, fraction_lost=st.fraction_lost, packets_lost=st.packets_lost,
                                highest_sequence=(st.cycles + st.max_seq) & 0xFFFFFFFF, jitter=st.jitter, lsr=0, dlsr=0)


def run_stats_history(rng, out):
    import aiortc.rtcrtpreceiver as rr
    from aiortc import rtp

    clockrate, events, feats = gen_history(rng)
    desc = {"feats": feats, "n": len(events), "first": [(s, t, round(n, 4)) for s, t, n in events[:5]]}
    clock = Clock(0.0)
    # the wall clock starts anywhere: at 0, at a present-day epoch, or shortly before clock x rate crosses a multiple of 2^32
    epoch = rng.choice([0.0, 1.7e9 + rng.randrange(10 ** 7), (rng.randint(1, 40000) * (1 << 32) - rng.randint(1, 30 * clockrate)) / clockrate])
    desc["epoch"] = epoch
    events = [(s_, t_, epoch + n_) for s_, t_, n_ in events]
    saved = rr.time
    rr.time = clock
    try:
        st = rr.StreamStatistics(clockrate)
        model = Model(clockrate)
        ok = True
        report_every = rng.choice([7, 50, 300])
        for i, (seq, ts, now) in enumerate(events):
            clock.t = now
            model.add(seq, ts, now)
            try:
                st.add(rtp.RtpPacket(payload_type=96, sequence_number=seq, timestamp=ts, ssrc=77))
            except Exception as exc:
                out.fail("stats-add-raises", f"{type(exc).__name__}: {exc}", desc | {"at": i}, exc)
                return
            out.counters["adds_checked"] += 1
            if ok:
                ok = check_state(st, model, out, desc, i, "after add of")
            if rng.random() < 1.0 / report_every:
                out.counters["reports_checked"] += 1
                want_fraction = model.fraction()
                try:
                    info = build_report(rtp, st, 77)
                    raw = bytes(rtp.RtcpRrPacket(ssrc=1, reports=[info]))
                    (back,) = rtp.RtcpPacket.parse(raw)
                except Exception as exc:
                    out.fail("report-does-not-fit", f"building the receiver report at packet {i} raised {type(exc).__name__}: {exc} "
                             f"(jitter={st.jitter}, lost={st.packets_lost})", desc | {"at": i}, exc)
                    return
                if back.reports != [info]:
                    out.fail("report-roundtrip", f"report at packet {i} does not parse back equal", desc | {"at": i})
                if not (0 <= info.fraction_lost <= 255) or info.fraction_lost != want_fraction:
                    out.fail("stats-differ:fraction-lost", f"report at packet {i}: fraction_lost {info.fraction_lost}, RFC 3550 A.3 says {want_fraction}", desc | {"at": i})
    finally:
        rr.time = saved
    out.counters["histories"] += 1
    if model.cycles or feats.get("ts_wrap") or (feats.get("loss") and feats.get("dup")):
        out.distinct(("c18", feats["mode"], min(model.cycles, 3), bool(feats.get("ts_wrap")), bool(feats.get("ts_jump")),
                      bool(feats.get("clock_jump")), clockrate))
    if out.want_sample():
        out.sample(desc | {"cycles": model.cycles, "final": {"received": model.received, "lost": model.lost, "jitter": model.jq4 >> 4}})


def run_report_path(rng, out):
    """The real RTCRtpReceiver._run_rtcp in virtual time behind a stub transport: RRs on the wire vs the model."""
    from vt.rigs.media import ReceiverRig

    clockrate, events, feats = gen_history(rng)
    desc = {"kind": "report-path", "feats": feats, "n": len(events)}
    with_rtx = rng.random() < 0.5
    rig = ReceiverRig(rng, kind="video", clockrate=90000, rtx_ssrc=4343 if with_rtx else None)
    try:
        model = Model(90000)
        model_rtx = Model(90000)  # the retransmission stream is a stream of its own (RFC 4588): own block, own figures
        rtx_seq = rng.randrange(65536)
        ssrc = 4242
        # same arrival pattern, but idle gaps are capped at 20 s (the RTCP loop runs every 0.5-1.5 s of virtual time)
        rel, prev, acc = [], events[0][2], 0.0
        for _, _, now in events:
            acc += min(max(now - prev, 0.0), 20.0)
            prev = now
            rel.append(acc)
        events = events[:1200]
        for i, (seq, ts, now) in enumerate(events):
            rig.advance_to(rel[i])
            # reports the receiver emitted meanwhile are compared before the model moves on
            for rr_pkt in rig.take_receiver_reports():
                compare_wire_report(rr_pkt, model, ssrc, out, desc, i)
                if with_rtx:
                    compare_wire_report(rr_pkt, model_rtx, 4343, out, desc, i)
            model.add(seq, ts, rig.clock_now())
            rig.feed_rtp(seq, ts, ssrc)
            out.counters["adds_checked"] += 1
            if with_rtx and rng.random() < 0.05:
                # a retransmission of some earlier packet arrives on the RTX stream: the primary stream's figures do not move
                model_rtx.add(rtx_seq, ts, rig.clock_now())
                rig.feed_rtx(rtx_seq, ts, (seq - rng.randint(1, 40)) & 0xFFFF)
                rtx_seq = (rtx_seq + rng.choice([1, 1, 1, 2])) & 0xFFFF
                out.counters["rtx_packets_fed"] += 1
            if rng.random() < 0.03:
                # the application looks at getStats() between two reports: same figures, and the next report is not disturbed
                try:
                    report = rig.run(rig.receiver.getStats())
                except Exception as exc:
                    out.fail("getstats-raises", f"{type(exc).__name__}: {exc}", desc | {"at": i}, exc)
                    break
                out.counters["getstats_checked"] += 1
                for entry in report.values():
                    if getattr(entry, "type", None) == "inbound-rtp" and entry.ssrc == ssrc:
                        got = (entry.packetsReceived, entry.packetsLost, entry.jitter)
                        want = (model.received, model.lost, model.jq4 >> 4)
                        if got != want:
                            out.fail("getstats-differs", f"getStats() after packet {i}: (received, lost, jitter) = {got}, RFC 3550 model says {want}", desc | {"at": i})
            if rig.rtcp_task_dead():
                out.fail("rtcp-task-died", f"the receiver's RTCP task ended after packet {i}: {rig.rtcp_task_error()}", desc | {"at": i})
                break
        rig.advance_to(rel[len(events) - 1] + 3.0)
        for rr_pkt in rig.take_receiver_reports():
            compare_wire_report(rr_pkt, model, ssrc, out, desc, len(events))
            if with_rtx:
                compare_wire_report(rr_pkt, model_rtx, 4343, out, desc, len(events))
        if rig.rtcp_task_dead():
            out.fail("rtcp-task-died", f"the receiver's RTCP task ended: {rig.rtcp_task_error()}", desc)
        out.counters["report_path_histories"] += 1
        if model.cycles or feats.get("ts_wrap"):
            out.distinct(("c18-path", feats["mode"], min(model.cycles, 3), bool(feats.get("ts_wrap"))))
    finally:
        rig.close()
    if out.want_sample():
        out.sample(desc)


def compare_wire_report(pkt, model, ssrc, out, desc, i):
    if model.max is not None and not any(info.ssrc == ssrc for info in pkt.reports):
        out.fail("report-block-missing", f"RR on the wire before packet {i} has no block for SSRC {ssrc} although {model.received} packets of it "
                 f"were received (blocks: {[r.ssrc for r in pkt.reports]})", desc | {"at": i})
    for info in pkt.reports:
        if info.ssrc != ssrc or model.max is None:
            continue
        out.counters["reports_checked"] += 1
        out.counters["wire_reports_checked"] += 1
        want = {"fraction_lost": model.fraction(), "packets_lost": model.lost, "highest_sequence": model.ext_max & 0xFFFFFFFF,
                "jitter": model.jq4 >> 4}
        got = {k: getattr(info, k) for k in want}
        if got != want:
            diffs = {k: (got[k], want[k]) for k in want if got[k] != want[k]}
            out.fail("wire-report-differs:" + sorted(diffs)[0], f"RR on the wire before packet {i}: (implementation, RFC 3550 model) = {diffs}",
                     desc | {"at": i})


def plan(tier):
    if tier == "thorough":
        return dict(cases=12800, shards=16, timeout=2400, min_nontrivial=60)
    return dict(cases=640, shards=16, timeout=240, min_nontrivial=30)


def run_case(index, rng, tier):
    out = Batch("C18", "c18", checked_counter="adds_checked")
    if index % 4 == 3:
        for _ in range(3):
            run_report_path(rng, out)
        out.counters["kind_report_path"] += 1
    else:
        for _ in range(10):
            run_stats_history(rng, out)
        out.counters["kind_stats"] += 1
    res = out.result()
    res["evals"] = out.counters.get("adds_checked", 0)
    return res
