"""C13 - data channel lifecycle: faithful open, forward-only states, exact bufferedAmount (rig R-SCTP)."""
import collections

from vt.core.net import FaultModel
from vt.rigs.sctp import SctpRig
from vt.rigs.sctp_workload import pick_size

ID = "C13"
LEVEL = "exploration"
RULE = ("Each case = a generated program executed by both endpoints of one association: create (DCEP or negotiated id, any "
        "reliability, Unicode label/protocol from ASCII/Latin-1/BMP/astral/empty strata up to 300 bytes), send, close, set "
        "bufferedAmountLowThreshold, stop, at arbitrary virtual times relative to association set-up (before start, during the "
        "cookie exchange, established), incl. close right after create, close from both ends at once, bursts of creates from "
        "both sides; under a fault schedule (loss-free / light / heavy) until heal, then drain to quiescence, then an "
        "id-reuse phase and an association-end phase. Monitors: per-object lifecycle automaton sampled at every event and "
        "API call; datachannel-event matcher; bufferedAmount shadow (bytes accepted by send() minus bytes observed being "
        "handed to SCTP) compared at every sample; bufferedamountlow vs downward crossings. Non-trivial = program has a "
        "close racing with open/ack, or a non-ASCII label, or creates from both sides; distinct = program+fault fingerprint."
        " close() may also be called from inside the channel's open handler."
        " Fault profiles include 'reset-lossy' (85 % of stream reset packets lost for 25-45 s) and 'reset-delayed'; directed shapes re-use an id right after the other side closed the channel.")
ASSUMPTIONS = [
    "same rig assumptions as C01; bufferedAmount equality is not evaluated in relay mode while a hand-over is suspended",
    "W3C semantics assumed for bufferedAmount after close (not reset): equality is only required while the channel is open",
]
DECIDING = ["lifecycle_samples", "bufferedamount_shadow_checks", "datachannel_events", "close_completed_checks"]

LABELS = {
    "ascii": ["chat", "a", "x" * 40, "data-channel_1"],
    "latin1": ["café", "üñî", "naïve" * 8],
    "bmp": ["中文标签", "€" * 20, "שלום"],
    "astral": ["\U0001f600", "\U0001f680rocket\U0001f680", "\U00010348" * 30],
    "empty": [""],
    "mixed": ["aé中\U0001f600" * 10, "é" * 150, "\U0001f600" * 75],
}


def gen_label(rng, k):
    stratum = rng.choice(list(LABELS))
    return stratum, f"c{k}|" + rng.choice(LABELS[stratum])


def directed_reuse_program(rng):
    """The history behind the known finding id-reused-while-peer-closing, spelled out: the creator closes a channel, its own reset
    is answered at once, the peer's reset (or the answer to it) is held up in the network; the creator opens the next channel -
    automatic id: the freed one - and sends on it while the peer's old channel on that id is still closing."""
    creator = rng.choice("AB")
    common = dict(creator=creator, protocol="", ordered=True, maxRetransmits=None, maxPacketLifeTime=None, negotiated=None)
    ops = [("create", -1.0, 0, dict(common, label="c0|first")),
           ("send", 0.8, 0, creator, 100, False), ("send", 0.82, 0, creator, 100, True),
           ("close", 1.0, 0, creator),
           ("create", round(1.0 + rng.choice([0.08, 0.15, 0.3]), 4), 1, dict(common, label="c1|second"))]
    for j in range(4):
        ops.append(("send", round(1.6 + 0.01 * j, 4), 1, creator, rng.choice([20, 300]), rng.random() < 0.5))
    ops.sort(key=lambda o: o[1])
    return dict(heal=8.0, faults="reset-delayed", ops=ops, end="none", start=dict(A=0.0, B=0.0),
                feats=["directed-id-reuse"], nch=2, early=None)


def directed_pr_close_program(rng):
    """close() right after a message on a partially reliable channel which the network then loses: the reset has to wait until
    the message left the sent queue - by being abandoned, not acknowledged - and nothing else is sent afterwards."""
    creator = rng.choice("AB")
    pr = dict(maxRetransmits=0, maxPacketLifeTime=None) if rng.random() < 0.6 else dict(maxRetransmits=None, maxPacketLifeTime=rng.choice([1, 200]))
    ops = [("create", -1.0, 0, dict(creator=creator, label="c0|pr", protocol="", ordered=rng.random() < 0.5, negotiated=None, **pr))]
    t = 1.0
    for j in range(rng.randint(1, 3)):
        ops.append(("send", round(t + 0.001 * j, 4), 0, creator, rng.choice([30, 900, 2500]), rng.random() < 0.5))
    ops.append(("close", round(t + 0.004, 4), 0, creator))
    return dict(heal=6.0, faults="half-loss", ops=ops, end="none", start=dict(A=0.0, B=0.0), feats=["directed-pr-close"], nch=1, early=None)


def gen_program(rng, tier, force_shape=None):
    if force_shape == "directed-id-reuse" or (force_shape is None and rng.random() < 0.02):
        return directed_reuse_program(rng)
    if force_shape is None and rng.random() < 0.03:
        return directed_pr_close_program(rng)
    heal = rng.choice([3.0, 6.0, 12.0])
    faults = rng.choice(["none", "none", "light", "heavy", "handshake", "none", "light", "reset-lossy"])
    if faults == "reset-lossy":
        heal = rng.choice([25.0, 45.0])  # a long spell in which most stream reset packets are lost: many retransmissions per close
    nch = rng.choice([1, 2, 3, 4, 6, 10]) if rng.random() < 0.9 else rng.choice([40, 120])
    ops = []
    feats = set()
    for k in range(nch):
        stratum, label = gen_label(rng, k)
        pstratum, proto = rng.choice(list(LABELS)), ""
        proto = rng.choice(LABELS[pstratum]) if rng.random() < 0.5 else ""
        if stratum not in ("ascii", "empty") or (proto and pstratum not in ("ascii", "empty")):
            feats.add("non-ascii")
        rel = rng.choice(["rel", "rel", "rtx", "life"])
        mr = rng.choice([0, 1, 3, 65535]) if rel == "rtx" else None
        mpl = rng.choice([1, 500, 65535]) if rel == "life" else None
        negotiated = rng.random() < 0.25
        creator = rng.choice("AB")
        when = rng.choice(["pre", "pre", "handshake", "est", "est", "late"])
        t = {"pre": -1.0, "handshake": rng.uniform(0.0, 0.4), "est": rng.uniform(0.5, heal), "late": heal + 1.0}[when]
        ops.append(("create", round(t, 4), k, dict(creator=creator, label=label, protocol=proto, ordered=rng.random() < 0.6,
                                                   maxRetransmits=mr, maxPacketLifeTime=mpl,
                                                   negotiated=(1000 + 2 * k + (1 if rng.random() < 0.5 else 0)) if negotiated else None)))
        # close?
        r = rng.random()
        if faults == "reset-lossy":
            r = 0.0
        if r < 0.5:
            mode = rng.choice(["immediate", "before-ack", "after-open", "both-ends", "remote", "late", "in-open-handler"])
            if faults == "reset-lossy":
                mode = rng.choice(["after-open", "after-open", "remote", "both-ends"])
            if mode == "immediate":
                ops.append(("close", round(t, 4), k, creator))
                feats.add("close-race")
            elif mode == "before-ack":
                ops.append(("close", round(max(t, 0.0) + rng.choice([0.001, 0.01, 0.03, 0.1]), 4), k, creator))
                feats.add("close-race")
            elif mode == "after-open":
                ops.append(("close", round(max(t, 0.5) + rng.uniform(0.2, heal), 4), k, creator))
            elif mode == "both-ends":
                tc = round(max(t, 0.5) + rng.uniform(0.2, heal), 4)
                ops.append(("close", tc, k, "A"))
                ops.append(("close", round(tc + rng.choice([0.0, 0.0, 0.01, 0.05]), 4), k, "B"))
                feats.add("close-both")
            elif mode == "in-open-handler":
                ops[-1][3]["close_on_open"] = rng.choice([creator, creator, "B" if creator == "A" else "A"])
                feats.add("close-in-handler")
            elif mode == "remote":
                ops.append(("close", round(max(t, 0.5) + rng.uniform(0.2, heal), 4), k, "B" if creator == "A" else "A"))
            else:
                ops.append(("close", round(heal + 1.5 + rng.random(), 4), k, rng.choice("AB")))
        if rng.random() < 0.4:
            ops.append(("threshold", round(max(t, 0) + rng.uniform(0, heal), 4), k, rng.choice("AB"),
                        rng.choice([0, 1, 100, 1200, 5000, 20000])))
    creators = {o[3]["creator"] for o in ops if o[0] == "create"}
    if len(creators) == 2:
        feats.add("both-create")
    n_msgs = rng.choice([10, 40, 120])
    for i in range(n_msgs):
        ops.append(("send", round(rng.uniform(0.0, heal + 2.0), 4), rng.randrange(nch), rng.choice("AB"),
                    pick_size(rng), rng.random() < 0.5))
    if rng.random() < 0.15 and faults != "handshake":
        # directed shape: a channel carries a few messages, the side that did NOT create it closes it, the creator then opens a
        # new channel (automatic id: the freed one) and at once sends a burst on it while the network still reorders
        creator = rng.choice("AB")
        other = "B" if creator == "A" else "A"
        k0, k1 = nch, nch + 1
        t0 = round(rng.uniform(0.6, 1.2), 4)
        common = dict(creator=creator, protocol="", ordered=True, maxRetransmits=None, maxPacketLifeTime=None, negotiated=None)
        ops.append(("create", -1.0, k0, dict(common, label="reuse-0")))
        for j in range(rng.randint(4, 9)):
            ops.append(("send", round(t0 + 0.01 * j, 4), k0, creator, pick_size(rng), rng.random() < 0.5))
        tc = round(t0 + rng.uniform(0.3, 0.8), 4)
        ops.append(("close", tc, k0, other))
        t1 = round(tc + rng.choice([0.3, 0.6, 1.0, 2.0]), 4)
        ops.append(("create", t1, k1, dict(common, label="reuse-1")))
        for j in range(rng.randint(3, 6)):
            ops.append(("send", round(t1 + 0.4 + 0.002 * j, 4), k1, creator, rng.choice([20, 200, 1100]), rng.random() < 0.5))
        feats.add("id-reuse-after-remote-close")
    end = rng.choice(["stop-A", "stop-B", "none", "none", "stop-A"])
    start = dict(A=rng.choice([0.0, 0.0, 0.2]), B=rng.choice([0.0, 0.0, 0.1, 1.2]))
    # association ends early: stop() during set-up / right after, or a peer that never starts (T1 exhaustion)
    r = rng.random()
    early = None
    if r < 0.08:
        who = rng.choice("AB")
        early = ("stop", who, round(rng.choice([0.0, 0.01, 0.05, 0.3, 1.0]) * rng.random() + start[who] + 1e-4, 4))
    elif r < 0.12:
        early = ("never-starts", rng.choice("AB"), None)
    if early:
        feats.add("early-end")
    ops.sort(key=lambda o: o[1])
    return dict(heal=heal, faults=faults, ops=ops, end=end, start=start, feats=sorted(feats), nch=nch, early=early)


def fault_spec(rng, faults):
    if faults == "none":
        return {"latency": rng.choice([0.005, 0.05]), "profile": "clean", "loss": 0.0}
    if faults == "light":
        return {"latency": 0.02, "profile": "light", "loss": 0.03, "dup": 0.05, "jitter": 0.05}
    if faults == "reset-lossy":
        return {"latency": 0.02, "profile": "reset-lossy", "loss": 0.02, "kind_loss": {"reconfig": 0.85}}
    if faults == "half-loss":
        return {"latency": 0.02, "profile": "half-loss", "loss": 0.5}
    if faults == "reset-delayed":
        return {"latency": 0.02, "profile": "reset-delayed", "loss": 0.0, "kind_extra": {"reconfig": (0.0, 3.0)}}
    if faults == "handshake":
        s = {"latency": 0.02, "profile": "handshake", "loss": 0.05,
             "kind_extra": {k: (0.7, 3.5) for k in ("init", "cookieecho", "initack", "cookieack")}}
        return s
    return FaultModel.random_spec(rng, heavy=True)


def blocked_by_lost_reset(rig, ep):
    req = getattr(ep.sctp, "_reconfig_request", None)
    streams = getattr(req, "streams", None)
    return bool(streams) and bool(set(streams) & rig.reconfig_lost_streams)


def run_case(index, rng, tier, force_shape=None):
    prog = gen_program(rng, tier, force_shape)
    relay = (index % 12 == 11)
    rig = SctpRig(rng, heal=prog["heal"], relay=relay, spec_ab=fault_spec(rng, prog["faults"]),
                  spec_ba=fault_spec(rng, prog["faults"]))
    viol = []
    try:
        eps = {"A": rig.A, "B": rig.B}
        created = {}

        def create(k, p):
            uid = f"c{k}"
            if any(e.sctp.state == "closed" for e in ((rig.A, rig.B) if p["negotiated"] is not None else (eps[p["creator"]],))):
                rig.counters["create_skipped_transport_closed"] += 1  # outside the property: association already over
                return
            try:
                if p["negotiated"] is not None:
                    for ep in (rig.A, rig.B):
                        rig.create_channel(ep, uid, ordered=p["ordered"], maxRetransmits=p["maxRetransmits"],
                                           maxPacketLifeTime=p["maxPacketLifeTime"], negotiated_id=p["negotiated"],
                                           protocol=p["protocol"], label=p["label"])
                else:
                    rig.create_channel(eps[p["creator"]], uid, ordered=p["ordered"], maxRetransmits=p["maxRetransmits"],
                                       maxPacketLifeTime=p["maxPacketLifeTime"], protocol=p["protocol"], label=p["label"])
                created[k] = p
                if p.get("close_on_open") and uid in rig.chans:
                    rig.chans[uid].close_on_open = p["close_on_open"]
            except Exception as exc:
                legal = eps[p["creator"]].sctp.state != "closed"
                if legal:
                    rig.violation("lifecycle", f"create-raised-{type(exc).__name__}", f"creating a channel raised {exc!r}")

        def close(k, who):
            chan = rig.chans.get(f"c{k}")
            if chan is not None:
                rig.close_channel(eps[who], chan)

        def send(k, who, size, as_str):
            chan = rig.chans.get(f"c{k}")
            if chan is not None:
                rig.send(eps[who], chan, size, as_str)

        def threshold(k, who, value):
            chan = rig.chans.get(f"c{k}")
            if chan is not None and who in chan.obj:
                obj = chan.obj[who]
                mon = eps[who].mons[id(obj)]
                obj.bufferedAmountLowThreshold = value
                mon.sample("threshold")

        for op in prog["ops"]:
            kind, t = op[0], op[1]
            fn = {"create": create, "close": close, "send": send, "threshold": threshold}[kind]
            if t < 0:
                fn(*op[2:])
            else:
                rig.at(t, fn, *op[2:])
        early = prog.get("early")
        for name, t in prog["start"].items():
            if early and early[0] == "never-starts" and early[1] == name:
                continue
            rig.at(t, rig.start, eps[name])
        if early and early[0] == "stop":
            rig.at(early[2], lambda: rig.loop.create_task(eps[early[1]].sctp.stop()))
        rig.run_until(prog["heal"] + 4.0)
        outcome = rig.drain(extra=600.0)
        alive = rig.association_alive()
        stuck_closing = []
        if outcome == "idle" and alive and not early:
            rig.counters["close_completed_checks"] += 1
            # every channel on which close() was called: both ends closed
            for uid, chan in rig.chans.items():
                states = {n: o.readyState for n, o in chan.obj.items()}
                if chan.close_called:
                    if any(s != "closed" for s in states.values()):
                        stuck_closing.append((uid, states))
                else:
                    # faithful open: creator opened => remote announced (DCEP) / both open (negotiated)
                    cobj = chan.obj.get(chan.creator)
                    other = "B" if chan.creator == "A" else "A"
                    reused = cobj is not None and (other, cobj.id) in rig.open_on_closing
                    if cobj is not None and cobj.readyState == "open":
                        if other not in chan.obj:
                            rig.violation("lifecycle", "id-reused-while-peer-closing" if reused else "datachannel-missing",
                                          f"{uid} open on {chan.creator} but no datachannel event on {other}"
                                          + (" (its OPEN reached the peer while the previous channel on that id was still closing)" if reused else ""))
                    if chan.negotiated and len(chan.obj) == 2 and any(s != "open" for s in states.values()):
                        rig.violation("lifecycle", "negotiated-not-open", f"negotiated {uid} states {states}")
                    if not chan.negotiated and cobj is not None and cobj.readyState == "connecting":
                        if reused:
                            rig.violation("lifecycle", "id-reused-while-peer-closing",
                                          f"{uid} (id {cobj.id}) still connecting at quiescence: its OPEN reached the peer while the "
                                          "previous channel on that id was still closing there and was ignored")
                        else:
                            rig.violation("lifecycle", "never-opened", f"{uid} still connecting at quiescence on a connected association",
                                          diagnostics=rig.diagnostics())
            by_mech = collections.defaultdict(list)
            for uid, states in stuck_closing:
                chan = rig.chans[uid]
                ctx = getattr(chan, "close_ctx", [])
                ids = {o.id for o in chan.obj.values() if o.id is not None}
                if len(states) == 2 and ctx and all(c["assoc"] != "ESTABLISHED" for c in ctx):
                    # D29: the channel has a counterpart on the peer (negotiated, or announced to us by DCEP) and
                    # every close() on it happened while the closer's association was not established
                    mech = "closed-before-established"
                elif ids & rig.reconfig_lost_streams or any(
                        st_ == "closing" and blocked_by_lost_reset(rig, eps[n]) for n, st_ in states.items()):
                    # D16: the request (or its response) was dropped and is never retransmitted; while it is
                    # outstanding every later reset of that endpoint queues behind it
                    mech = "reconfig-not-retransmitted"
                else:
                    mech = "close-not-completed"
                by_mech[mech].append((uid, states, ctx[:2]))
            for mech, lst in by_mech.items():
                rig.violation("lifecycle", mech, f"close() called but at quiescence: {lst[:3]}",
                              diagnostics=rig.diagnostics() if mech == "close-not-completed" else None)
            # live ids distinct + parity
            for ep in (rig.A, rig.B):
                ids = collections.Counter()
                for chan in rig.chans.values():
                    o = chan.obj.get(ep.name)
                    if o is not None and o.readyState in ("open", "closing") and o.id is not None:
                        ids[o.id] += 1
                dups = [i for i, n in ids.items() if n > 1]
                if dups:
                    rig.violation("lifecycle", "id-collision", f"live channels share ids {dups[:5]} on {ep.name}")
            for chan in rig.chans.values():
                if not chan.negotiated:
                    o = chan.obj.get(chan.creator)
                    if o is not None and o.id is not None and o.id < 1000:
                        want = 1 if chan.creator == "A" else 0  # client odd, server even
                        if o.id % 2 != want:
                            rig.violation("lifecycle", "id-parity", f"{chan.uid} created by {chan.creator} got id {o.id}")
            # id reuse phase: every id freed by a completed close can be used again
            reused = 0
            if not stuck_closing:
                for uid, chan in list(rig.chans.items()):
                    if not chan.close_called or reused >= 3:
                        continue
                    ids = {o.id for o in chan.obj.values() if o.id is not None}
                    if len(ids) != 1:
                        continue
                    cid = ids.pop()
                    live = {o.id for ch in rig.chans.values() for o in ch.obj.values()
                            if o.readyState != "closed" and o.id is not None}
                    if cid in live:
                        rig.counters["id_reused_by_automatic_allocation"] += 1
                        continue  # already re-used (automatic allocation returned to it)
                    nuid = uid + "r"
                    try:
                        for ep in (rig.A, rig.B):
                            rig.create_channel(ep, nuid, negotiated_id=cid, label=nuid)
                    except Exception as exc:
                        rig.violation("lifecycle", "id-not-freed", f"id {cid} of closed channel {uid} cannot be reused: {exc!r}")
                        continue
                    reused += 1
                    rig.counters["id_reuse_attempts"] += 1
                if reused:
                    rig.run_until(rig.now() + 0.5)
                    for uid, chan in list(rig.chans.items()):
                        if uid.endswith("r"):
                            for ep in (rig.A, rig.B):
                                rig.send(ep, chan, 50, True)
                    rig.drain(extra=300.0)
                    for uid, chan in list(rig.chans.items()):
                        if uid.endswith("r"):
                            und = [f for f in chan.flows.values() if len(f.delivered) != len(f.sent) or not f.sent]
                            if und:
                                rig.violation("lifecycle", "reused-id-broken",
                                              f"channel re-created on freed id {chan.neg_id} does not carry messages "
                                              f"({[(f.fid, len(f.sent), len(f.delivered)) for f in und]})",
                                              diagnostics=rig.diagnostics())
        if early and outcome == "idle":
            # association ended (or never came up): every channel object handed out on a closed endpoint is closed
            rig.counters["early_end_checks"] += 1
            for ep in (rig.A, rig.B):
                started = not (early[0] == "never-starts" and early[1] == ep.name)
                if early[0] == "never-starts" and started and ep is rig.A and ep.sctp.state != "closed":
                    # the client gives up after its INIT retransmissions; a server just keeps listening
                    rig.violation("lifecycle", "never-established-not-closed",
                                  f"peer never started, loop quiescent, but {ep.name}.state={ep.sctp.state}")
                if early[0] == "stop" and early[1] == ep.name and ep.sctp.state != "closed":
                    rig.violation("lifecycle", "stop-not-closed", f"after early stop() {ep.name}.state={ep.sctp.state}")
                if ep.sctp.state == "closed":
                    for mon in ep.mons.values():
                        if mon.obj.readyState != "closed":
                            uid = mon.chan.uid if mon.chan else "?"
                            key = "channel-survives-association" + ("-no-id" if mon.obj.id is None else "")
                            rig.violation("lifecycle", key, f"association closed on {ep.name} (early end {early}) but "
                                          f"channel {uid} (id {mon.obj.id}) is {mon.obj.readyState}")
        # association end
        if prog["end"].startswith("stop") and outcome == "idle" and not early:
            who = eps[prog["end"][-1]]
            t = rig.loop.create_task(who.sctp.stop())
            rig.drain(extra=300.0)
            rig.counters["association_end_checks"] += 1
            for ep in (rig.A, rig.B):
                if ep.sctp.state != "closed":
                    if ep is not who and not alive:
                        continue
                    rig.violation("lifecycle", "stop-not-closed", f"after stop() on {who.name}: {ep.name}.state={ep.sctp.state}")
                    continue
                for mon in ep.mons.values():
                    if mon.obj.readyState != "closed":
                        uid = mon.chan.uid if mon.chan else "?"
                        key = "channel-survives-association" + ("-no-id" if mon.obj.id is None else "")
                        rig.violation("lifecycle", key,
                                      f"association closed on {ep.name} but channel {uid} (id {mon.obj.id}) is {mon.obj.readyState}")
        for te in rig.task_exceptions:
            if te["type"] not in (None, "CancelledError", "ConnectionError"):
                rig.violation("exception", f"{te['type']}@{te['where']}", f"task failed: {te['type']} at {te['where']}: {te['repr']}")
        fin = rig.finish()
        c = dict(rig.counters)
        c["drain_" + outcome] = 1
        if outcome == "livelock" and not (rig.A.dead or rig.B.dead):
            c["livelock_without_dead_endpoint"] = 1
        for f in prog["feats"]:
            c["feat_" + f] = 1
        for v in rig.violations:
            if v["cat"] in ("lifecycle", "exception"):
                viol.append({"key": f"C13/{v['key']}", "what": v["what"],
                             "witness": {"v": v, "prog": {k: prog[k] for k in ("heal", "faults", "end", "start", "feats")},
                                         "ops": prog["ops"][:40], "relay": relay,
                                         "events_tail": [list(map(str, e)) for e in list(rig.events)[-30:]]}})
        inconclusive = "inconclusive-slow" if outcome == "slow" else None
        return dict(hash=fin["fingerprint"] + str(index), nontrivial=bool(prog["feats"]), counters=c, violations=viol,
                    rig_violations=[dict(v, prog={k: prog[k] for k in ("heal", "faults", "end", "start", "feats")}, ops=prog["ops"][:40],
                                         id_reused_while_peer_closing=_on_reused_id(rig, v))
                                    for v in rig.violations],
                    inconclusive=inconclusive, evals=c.get("lifecycle_samples", 0),
                    sample={"prog": {k: prog[k] for k in ("heal", "faults", "end", "start", "feats", "nch")},
                            "ops": [list(map(repr, o)) for o in prog["ops"][:8]], "drain": outcome})
    finally:
        rig.close()


def _on_reused_id(rig, v):
    """Does this violation concern a channel whose stream id saw a DCEP OPEN arrive while the previous channel on that id was still
    closing at the receiver (the mechanism of the known finding id-reused-while-peer-closing)?"""
    ch = rig.chans.get(v.get("chan"))
    if ch is None:
        return False
    ids = {getattr(o, "id", None) for o in ch.obj.values()}
    return any((ep, i) in rig.open_on_closing for ep in "AB" for i in ids)


def plan(tier):
    if tier == "thorough":
        return dict(cases=144000, shards=16, timeout=3400, min_nontrivial=15000)
    return dict(cases=2880, shards=16, timeout=400, min_nontrivial=300)
