"""C03 - offer/answer yields a consistent, connectable session for every configuration (rig R-PC, DESIGN 3/C03)."""
import asyncio
import time

from vt.core.batch import Batch

ID = "C03"
LEVEL = "exploration"
RULE = ("Each case = a generated pair configuration: offerer = 0-4 transceivers ({audio,video} x direction x addTrack / "
        "addTransceiver(kind) / addTransceiver(track) x optional codec preferences) and 0-3 data channels (DCEP or negotiated, "
        "before/after media) x bundle policy x alwaysNegotiateDataChannels; answerer = its own pre-created transceivers / tracks "
        "/ channels (also of kinds the offer lacks) x bundle policy; then optionally a second round (add media, add a channel, "
        "swap the offering side); in one case of three the offer reaches the answerer with renumbered payload types and "
        "header-extension ids (and optionally a codec it does not know), as from a foreign offerer. Oracles: no exception from the four negotiation calls; both peers stable; an independent "
        "reader of the SDP texts checks that the answer mirrors the offer (count, order, kind, mid, BUNDLE), answers only "
        "offered payload types / rtpmaps, RTX only with its answered base codec, offered rtcp-fb and extmap ids, setup "
        "active/passive; per mid currentDirection(answerer) == reverse(currentDirection(offerer)) and both within what each "
        "side wanted; then connectivity in real time: every negotiated transport reaches 'connected' on both sides, every "
        "negotiated data channel opens on both sides and carries one uid message each way, and the aggregate connectionState "
        "is 'connected' when the exchange covers everything the peer owns. The small sub-space (<= 2 transceivers, no "
        "preferences, <= 1 channel) is enumerated completely in the thorough tier. Distinct/non-trivial = distinct "
        "configuration tuples with >= 2 m-sections or an answerer-side extra."
        ' A third of the random cases lose the k-th DTLS handshake datagram of the server or client side (fault injected at _write_ssl); every reliable channel additionally carries a burst of empty, non-ASCII, 20 000-character and 58 KiB binary messages each way (exactly once, in order when ordered). Wall-clock caps decide only when a heartbeat task shows the loop was alive.'
        ' Foreign offers also come from an offerer that offers less (some rtcp-fb / extmap lines absent) or maps PCMU/PCMA/G722 onto dynamic payload types; the loss plan may instead drop one SCTP set-up packet (INIT, INIT ACK, COOKIE ECHO, COOKIE ACK).')
ASSUMPTIONS = [
    "answerer-side codec preferences are supersets / permutations of the capabilities, so an empty codec intersection cannot occur (that would legitimately raise OperationError)",
    "real aioice over local UDP, real DTLS, real time; a transport still checking/connecting at the 20 s cap is inconclusive, failed/closed is a violation",
    "a peer that owns something the exchange did not cover legitimately keeps a transport in 'new': its aggregate connectionState is only required after the round in which it offers",
]
DECIDING = ["negotiations_checked", "structure_checks", "connectivity_checks", "messages_exchanged"]
EXPLANATION = "exhaustive (thorough tier) only for the sub-space: offerer with <= 2 transceivers, no codec preferences, <= 1 data channel, x 3 bundle policies x 4 answerer set-ups"

REVERSE = {"sendrecv": "sendrecv", "sendonly": "recvonly", "recvonly": "sendonly", "inactive": "inactive"}
SUB = {"sendrecv": {"sendrecv", "sendonly", "recvonly", "inactive"}, "sendonly": {"sendonly", "inactive"},
       "recvonly": {"recvonly", "inactive"}, "inactive": {"inactive"}}


def check_structure(offer, answer, out, desc):
    from vt.props.c09 import read_text

    o, a = read_text(offer), read_text(answer)
    out.counters["structure_checks"] += 1

    def bad(key, what):
        out.fail("answer-structure:" + key, what, desc | {"offer": offer[:1500], "answer": answer[:1500]})

    om = [(m["kind"], m["mid"]) for m in o["media"]]
    am = [(m["kind"], m["mid"]) for m in a["media"]]
    if om != am:
        bad("sections", f"answer sections {am} do not mirror the offer's {om}")
        return
    ob = next((g for g in o["groups"] if g.startswith("BUNDLE")), None)
    ab = next((g for g in a["groups"] if g.startswith("BUNDLE")), None)
    if ob is not None and (ab is None or ab.split()[1:] != ob.split()[1:]):
        bad("bundle", f"answer BUNDLE group {ab!r}, offer {ob!r}")
    for i, (mo, ma) in enumerate(zip(o["media"], a["media"])):
        off_maps = {}
        for raw in mo["rtpmap"]:
            pt, d = raw.split(" ", 1)
            off_maps[pt] = d.lower()
        ans_maps = {}
        for raw in ma["rtpmap"]:
            pt, d = raw.split(" ", 1)
            ans_maps[pt] = d.lower()
            if off_maps.get(pt) != d.lower():
                bad("codec-not-offered", f"section {i}: answered rtpmap {raw!r}, offered for that payload type: {off_maps.get(pt)!r}")
        if mo["kind"] in ("audio", "video"):
            if not [d for d in ans_maps.values() if not d.startswith("rtx/")] and ma["port"] != 0:
                bad("no-codec", f"section {i}: the answer selects no real codec")
            if set(ma["fmt"]) != set(ans_maps):
                bad("fmt-rtpmap", f"section {i}: m-line formats {ma['fmt']} vs rtpmap payload types {sorted(ans_maps)}")
        fmtp = {}
        for raw in ma["fmtp"]:
            pt, d = raw.split(" ", 1)
            fmtp[pt] = d
        for pt, d in ans_maps.items():
            if d.startswith("rtx/"):
                apt = next((kv.split("=")[1] for kv in fmtp.get(pt, "").split(";") if kv.startswith("apt=")), None)
                if apt is None or apt not in ans_maps or ans_maps[apt].startswith("rtx/"):
                    bad("rtx-without-base", f"section {i}: RTX payload type {pt} has apt={apt}, answered codecs {ans_maps}")
        for fb in ma["rtcp_fb"]:
            if fb not in mo["rtcp_fb"]:
                bad("feedback-not-offered", f"section {i}: rtcp-fb {fb!r} was not offered")
        for ex in ma["extmap"]:
            if ex not in mo["extmap"]:
                bad("extmap-not-offered", f"section {i}: extmap {ex!r} was not offered (offer: {mo['extmap']})")
        if ma["setup"] not in (["active"], ["passive"]):
            bad("setup", f"section {i}: a=setup {ma['setup']} in an answer")
        if mo["kind"] in ("audio", "video") and ma["direction"] is not None and mo["direction"] is not None:
            if ma["direction"] not in SUB[REVERSE[mo["direction"]]]:
                bad("direction", f"section {i}: offer {mo['direction']}, answer {ma['direction']}")


def check_directions(off, ans, wanted, out, desc):
    ot = {t.mid: t for t in off.pc.getTransceivers() if t.mid is not None}
    at = {t.mid: t for t in ans.pc.getTransceivers() if t.mid is not None}
    for mid in ot.keys() & at.keys():
        co, ca = ot[mid].currentDirection, at[mid].currentDirection
        if co is None or ca is None:
            out.fail("direction:none", f"mid {mid}: currentDirection offerer={co} answerer={ca} after a completed exchange", desc)
            continue
        if ca != REVERSE[co]:
            out.fail("direction:not-complementary", f"mid {mid}: offerer {co}, answerer {ca}", desc)
        if co not in SUB[ot[mid].direction] or ca not in SUB[at[mid].direction]:
            out.fail("direction:exceeds-wanted", f"mid {mid}: offerer wanted {ot[mid].direction} got {co}; answerer wanted {at[mid].direction} got {ca}", desc)


def negotiated_transports(peer):
    """(label, object-with-state) for everything of this peer that has been part of an exchange."""
    out = []
    for t in peer.pc.getTransceivers():
        if t.mid is not None and not t.stopped:
            out.append((f"dtls(mid {t.mid})", t.receiver.transport))
            out.append((f"ice(mid {t.mid})", t.receiver.transport.transport))
    sctp = peer.pc.sctp
    if sctp is not None and getattr(sctp, "mid", None) is not None:
        out.append(("dtls(sctp)", sctp.transport))
        out.append(("ice(sctp)", sctp.transport.transport))
        out.append(("sctp", sctp))
    return out


def owns_uncovered(peer):
    if any(t.mid is None for t in peer.pc.getTransceivers()):
        return True
    sctp = peer.pc.sctp
    return sctp is not None and getattr(sctp, "mid", None) is None


# fault injection at an existing suspension point: the k-th datagram a DTLS server (or client) writes during its handshake is lost
LOSS = {"plan": None, "dropped": [], "counts": {}, "installed": False}


def install_handshake_loss():
    if LOSS["installed"]:
        return
    from OpenSSL import SSL
    from aiortc.rtcdtlstransport import RTCDtlsTransport, State

    orig = RTCDtlsTransport._write_ssl

    async def _write_ssl(self):
        plan = LOSS["plan"]
        if plan is None or plan.get("layer") == "data" or self._role != plan["role"] or self._state != State.CONNECTING:
            return await orig(self)
        try:
            data = self._ssl.bio_read(1500)
        except SSL.Error:
            data = b""
        if data:
            n = LOSS["counts"].get(id(self), 0)
            LOSS["counts"][id(self)] = n + 1
            if n == plan["k"]:
                LOSS["dropped"].append((self._role, n, len(data), data[0]))
                return
            await self.transport._send(data)

    RTCDtlsTransport._write_ssl = _write_ssl

    orig_send_data = RTCDtlsTransport._send_data

    async def _send_data(self, data):
        # the k-th application datagram (SCTP packet: INIT, INIT ACK, COOKIE ECHO, COOKIE ACK, first DATA...) of one side is lost
        plan = LOSS["plan"]
        if plan is not None and plan.get("layer") == "data" and self._role == plan["role"]:
            n = LOSS["counts"].get(("data", id(self)), 0)
            LOSS["counts"][("data", id(self))] = n + 1
            if n == plan["k"]:
                LOSS["dropped"].append((self._role, "data", n, len(data), data[12] if len(data) > 12 else None))
                return
        return await orig_send_data(self, data)

    RTCDtlsTransport._send_data = _send_data
    LOSS["installed"] = True


PROBES = [0]
EARLIER = set()
INCOMPLETE = set()


class Heartbeat:
    """Counts 50 ms ticks of the running loop: a wall-clock cap only yields a verdict when the loop was alive
    (>= 60 % of the ticks it should have had), otherwise the machine was starved and the case is inconclusive."""

    def __init__(self):
        self.ticks = 0
        self.t0 = time.monotonic()
        self.task = asyncio.get_running_loop().create_task(self._run())

    async def _run(self):
        while True:
            await asyncio.sleep(0.05)
            self.ticks += 1

    def healthy(self):
        elapsed = time.monotonic() - self.t0
        return self.ticks >= 0.6 * elapsed / 0.05

    def stop(self):
        self.task.cancel()


async def check_connectivity(a, b, out, desc, cap=20.0):
    out.counters["connectivity_checks"] += 1
    t0 = time.monotonic()
    hb = Heartbeat()
    good_ice = ("completed", "connected")
    pending = None
    while True:
        pending = []
        dead = []
        for peer in (a, b):
            for label, obj in negotiated_transports(peer):
                st = obj.state
                ok = st in good_ice if label.startswith("ice") else st == "connected"
                if st in ("failed", "closed"):
                    dead.append((peer.name, label, st))
                elif not ok:
                    pending.append((peer.name, label, st))
        if dead:
            out.fail("transport-dead", f"negotiated transports ended instead of connecting: {dead[:4]}", desc | {"pending": pending[:6]})
            hb.stop()
            return False
        if not pending:
            hb.stop()
            break
        if time.monotonic() - t0 > cap:
            stuck_new = [p for p in pending if p[2] == "new"]
            if stuck_new and len(stuck_new) == len(pending) and hb.healthy():
                out.fail("transport-never-started", f"negotiated transports still 'new' after {cap:.0f} s: {pending[:6]}", desc)
            elif hb.healthy() and LOSS["plan"] is not None and LOSS["dropped"]:
                # exactly one handshake datagram per transport was lost; DTLS retransmits after 1 s, 2 s, 4 s...
                out.fail("transport-never-connected", f"one datagram was lost ({LOSS['dropped'][:4]}) and {cap:.0f} s later (event loop "
                         f"alive throughout) the negotiated transports are still {pending[:6]}", desc | {"loss_plan": LOSS["plan"]})
            else:
                out.inconclusive = f"transports still {sorted({p[2] for p in pending})} at the cap"
            hb.stop()
            return False
        await asyncio.sleep(0.02)
    for peer in (a, b):
        if not owns_uncovered(peer) and peer.pc.connectionState != "connected":
            # give the aggregate a moment: it is updated from transport events
            for _ in range(50):
                if peer.pc.connectionState == "connected":
                    break
                await asyncio.sleep(0.02)
            if peer.pc.connectionState != "connected":
                out.fail("aggregate-state", f"{peer.name}: every negotiated transport is connected but connectionState={peer.pc.connectionState}", desc)
    return True


async def check_channels(a, b, out, desc, cap=15.0):
    """Every locally created channel of either peer: opens on both sides and carries one uid message each way."""
    hb = Heartbeat()
    try:
        await _check_channels(a, b, out, desc, cap, hb)
    finally:
        hb.stop()


def cap_verdict(out, hb, key, what, desc):
    if hb.healthy():
        out.fail(key, what, desc)
    else:
        out.inconclusive = f"{key}: cap reached while the event loop was starved ({hb.ticks} ticks)"


async def _check_channels(a, b, out, desc, cap, hb):
    pairs = []
    t0 = time.monotonic()
    for x, y in ((a, b), (b, a)):
        sctp = x.pc.sctp
        if sctp is None or getattr(sctp, "mid", None) is None:
            # this peer's channels were created beforehand but no exchange has covered its SCTP section yet
            out.counters["channels_not_yet_negotiated"] += len(x.channels)
            continue
        for ch in x.channels:
            if ch.readyState == "closed":
                out.fail("channel-closed", f"{x.name}: channel {ch.label!r} (id {ch.id}) is closed after negotiation", desc)
                continue
            pairs.append((x, y, ch))
    for x, y, ch in pairs:
        while ch.readyState != "open" and time.monotonic() - t0 < cap:
            await asyncio.sleep(0.02)
        if ch.readyState != "open":
            cap_verdict(out, hb, "channel-not-open", f"{x.name}: channel {ch.label!r} (id {ch.id}, negotiated={ch.negotiated}) is {ch.readyState} "
                        f"{cap:.0f} s after the transports connected", desc)
            continue
        if ch.negotiated:
            twin = next((c for c in y.channels if c.negotiated and c.id == ch.id), None)
        else:
            twin = None
            while twin is None and time.monotonic() - t0 < cap:
                twin = next((c for c in y.remote_channels if c.id == ch.id and c.label == ch.label), None)
                if twin is None:
                    await asyncio.sleep(0.02)
        if twin is None:
            cap_verdict(out, hb, "channel-no-counterpart", f"{x.name}: channel {ch.label!r} (id {ch.id}) open but {y.name} never announced it", desc)
            continue
        got = {"xy": [], "yx": []}
        twin.on("message", got["xy"].append)
        ch.on("message", got["yx"].append)
        # unique per probe: a message of an earlier probe that arrives late (that probe ran into its cap) must not be taken for a
        # duplicate of this one
        PROBES[0] += 1
        m1, m2 = f"{x.name}>{ch.id}:{ch.label}#{PROBES[0]}", f"{y.name}>{ch.id}:{ch.label}#{PROBES[0]}"
        EARLIER.update((m1, m2))
        try:
            ch.send(m1)
            if twin.readyState == "open":
                twin.send(m2)
            else:
                while twin.readyState != "open" and time.monotonic() - t0 < cap:
                    await asyncio.sleep(0.02)
                twin.send(m2)
        except Exception as exc:
            out.fail("channel-send-raises", f"{type(exc).__name__}: {exc} on channel {ch.label!r}", desc, exc)
            continue
        t1 = time.monotonic()

        def late(m):
            return isinstance(m, str) and m in EARLIER and m not in (m1, m2)

        while ([m for m in got["xy"] if not late(m)] != [m1] or [m for m in got["yx"] if not late(m)] != [m2]) and time.monotonic() - t1 < 5.0:
            await asyncio.sleep(0.02)
        n_late = sum(1 for m in got["xy"] + got["yx"] if late(m))
        if n_late:
            out.counters["late_messages_of_earlier_probes"] += n_late
            got["xy"][:] = [m for m in got["xy"] if not late(m)]
            got["yx"][:] = [m for m in got["yx"] if not late(m)]
        if got["xy"] != [m1] or got["yx"] != [m2]:
            wrong = [m for m in got["xy"] if m != m1] + [m for m in got["yx"] if m != m2] or len(got["xy"]) > 1 or len(got["yx"]) > 1
            if wrong:
                out.fail("channel-message", f"channel {ch.label!r} (id {ch.id}): sent {m1!r}/{m2!r}, received {got}", desc)
            else:
                INCOMPLETE.update((id(ch), id(twin)))
                cap_verdict(out, hb, "channel-message", f"channel {ch.label!r} (id {ch.id}, maxRetransmits={ch.maxRetransmits}): sent {m1!r}/{m2!r}, "
                            f"received {got} within 5 s", desc)
        else:
            out.counters["messages_exchanged"] += 2
            if ch.maxRetransmits is None and ch.maxPacketLifeTime is None and twin.readyState == "open" and ch.readyState == "open":
                await burst(x, y, ch, twin, got, out, desc, hb)


async def burst(x, y, ch, twin, got, out, desc, hb):
    """A reliable channel over the whole real stack (SCTP over DTLS over ICE on loopback): empty, tiny, non-ASCII, multi-fragment
    and binary messages both ways arrive exactly once, intact - in order on an ordered channel."""
    PROBES[0] += 1
    tagx, tagy = f"{x.name}{ch.id}#{PROBES[0]}", f"{y.name}{ch.id}#{PROBES[0]}"

    def msgs(tag):
        return [f"{tag}:0", "", b"", f"{tag}:\u00e9\u4e16\U0001f600" * 40, bytes(range(256)) * 230 + tag.encode(), f"{tag}:" + "x" * 20000, bytes([7]) + tag.encode(),
                f"{tag}:last"]

    sent_x, sent_y = msgs(tagx), msgs(tagy)
    del got["xy"][:], got["yx"][:]
    tainted = id(ch) in INCOMPLETE or id(twin) in INCOMPLETE  # an earlier probe on this channel hit its cap: stragglers may follow
    try:
        for m1, m2 in zip(sent_x, sent_y):
            ch.send(m1)
            twin.send(m2)
    except Exception as exc:
        out.fail("channel-send-raises", f"{type(exc).__name__}: {exc} on channel {ch.label!r} (burst)", desc, exc)
        return
    t1 = time.monotonic()
    while (len(got["xy"]) < len(sent_x) or len(got["yx"]) < len(sent_y)) and time.monotonic() - t1 < 10.0:
        await asyncio.sleep(0.02)
    out.counters["bursts_exchanged"] += 1
    EARLIER.update(m for m in sent_x + sent_y if m not in ("", b""))
    for sent, rec, who in ((sent_x, got["xy"], x.name), (sent_y, got["yx"], y.name)):
        stragglers = [m for m in rec if m in EARLIER and m not in sent]
        if stragglers or tainted:
            # messages of an earlier probe on this channel (it had run into its cap): not this burst's business
            out.counters["late_messages_of_earlier_probes"] += len(stragglers)
            rec = [m for m in rec if m not in stragglers]
            for empty in ("", b""):
                while rec.count(empty) > 1:
                    rec.remove(empty)
        same = rec == sent if ch.ordered else sorted(map(repr, rec)) == sorted(map(repr, sent))
        if same and all(type(a) is type(b) for a, b in zip(sorted(rec, key=repr), sorted(sent, key=repr))):
            out.counters["messages_exchanged"] += len(sent)
            continue
        foreign = [m for m in rec if m not in sent]
        extra = len(rec) > len(sent) or any(rec.count(m) > sent.count(m) for m in rec)
        summary = [(type(m).__name__, len(m), (m[:12] if isinstance(m, str) else m[:8].hex())) for m in rec[:10]]
        if foreign or extra or (len(rec) == len(sent)):
            out.fail("channel-burst", f"channel {ch.label!r} (id {ch.id}, ordered={ch.ordered}) messages from {who}: sent {len(sent)}, received {len(rec)}: "
                     f"{'altered/unknown messages' if foreign else 'duplicates' if extra else 'wrong order or type'} {summary}", desc)
        else:
            INCOMPLETE.update((id(ch), id(twin)))
            cap_verdict(out, hb, "channel-burst", f"channel {ch.label!r} (id {ch.id}) messages from {who}: only {len(rec)} of {len(sent)} arrived "
                        f"within 10 s", desc)


def sparse(text, seed):
    """A foreign offerer that offers less: some rtcp-fb lines and some header extensions are absent from its offer."""
    import random

    r = random.Random(seed)
    keep = []
    for line in text.split("\r\n"):
        if line.startswith("a=rtcp-fb:") and r.random() < 0.4:
            continue
        if line.startswith("a=extmap:") and r.random() < 0.3:
            continue
        keep.append(line)
    return "\r\n".join(keep)


def renumber(text, unknown_codec=False, static_swap=False):
    """Signalling-path munging that emulates an offerer with another numbering: dynamic payload types p -> 223-p and
    header-extension ids i -> 15-i (both involutions, so the same function maps the answer back)."""
    import re

    STATIC = {"0": "110", "8": "111", "9": "112", "110": "0", "111": "8", "112": "9"}

    def pt(tok):
        if static_swap and in_audio[0] and tok in STATIC:
            return STATIC[tok]  # PCMU / PCMA / G722 offered under dynamic numbers (and back)
        return str(223 - int(tok)) if tok.isdigit() and 96 <= int(tok) <= 127 else tok

    in_audio = [False]

    out = []
    for line in text.split("\r\n"):
        if line.startswith("m="):
            in_audio[0] = line.startswith("m=audio")
        if line.startswith(("m=audio", "m=video")):
            bits = line.split(" ")
            line = " ".join(bits[:3] + [pt(b) for b in bits[3:]])
        elif line.startswith(("a=rtpmap:", "a=fmtp:", "a=rtcp-fb:")):
            head, rest = line.split(":", 1)
            first, _, tail = rest.partition(" ")
            tail = re.sub(r"\bapt=(\d+)", lambda m: "apt=" + pt(m.group(1)), tail)
            line = f"{head}:{pt(first)} {tail}" if tail else f"{head}:{pt(first)}"
        elif line.startswith("a=extmap:"):
            head, rest = line.split(":", 1)
            first, _, tail = rest.partition(" ")
            if first.isdigit() and 1 <= int(first) <= 14:
                first = str(15 - int(first))
            line = f"{head}:{first} {tail}"
        out.append(line)
    text = "\r\n".join(out)
    if unknown_codec:
        # a codec the answerer does not know, offered together with its RTX: neither may be answered
        text = text.replace("H264/90000", "X-UNKNOWN/90000", 1)
    return text


async def negotiate_foreign(off, ans, unknown_codec, variant=0):
    from aiortc import RTCSessionDescription

    o, a = off.pc, ans.pc
    static_swap = variant % 2 == 1
    await o.setLocalDescription(await o.createOffer())
    offer_seen = renumber(o.localDescription.sdp, unknown_codec, static_swap)
    if variant % 3 == 2:
        offer_seen = sparse(offer_seen, variant)
    await a.setRemoteDescription(RTCSessionDescription(sdp=offer_seen, type="offer"))
    await a.setLocalDescription(await a.createAnswer())
    answer = a.localDescription.sdp
    await o.setRemoteDescription(RTCSessionDescription(sdp=renumber(answer, False, static_swap), type="answer"))
    return {"offer": offer_seen, "answer": answer}


async def round_(off, ans, out, desc, which, foreign=None):
    from vt.rigs.pc import negotiate

    d = desc | {"round": which, "foreign_numbering": foreign}
    try:
        if foreign:
            texts = await negotiate_foreign(off, ans, foreign == "unknown-codec", desc.get("foreign_variant", 0))
            out.counters["foreign_numbering_rounds"] += 1
        else:
            texts = await negotiate(off, ans)
    except Exception as exc:
        out.fail("negotiation-raises", f"{which}: {type(exc).__name__}: {exc}", d, exc)
        return False
    out.counters["negotiations_checked"] += 1
    # the offerer offers everything it owns: every transceiver and its SCTP transport have a mid now
    if owns_uncovered(off):
        missing = [f"{t.kind} transceiver" for t in off.pc.getTransceivers() if t.mid is None]
        if off.pc.sctp is not None and getattr(off.pc.sctp, "mid", None) is None:
            missing.append("data channel section")
        out.fail("offer-omits-owned-section", f"{which}: {off.name} offered, yet its {missing} got no m-section: "
                 "what it created before the offer is not negotiated", d | {"offer": texts["offer"][:800]})
    for p in (off, ans):
        if p.pc.signalingState != "stable":
            out.fail("not-stable", f"{which}: {p.name}.signalingState={p.pc.signalingState} after a complete exchange", d)
    check_structure(texts["offer"], texts["answer"], out, d)
    check_directions(off, ans, None, out, d)
    if await check_connectivity(off, ans, out, d):
        await check_channels(off, ans, out, d)
    return True


async def run_config(cfg, out, desc):
    from vt.rigs.pc import Peer

    a, b = Peer("A", cfg["offerer"]), Peer("B", cfg["answerer"])
    LOSS.update(plan=cfg.get("handshake_loss"), dropped=[], counts={})
    if LOSS["plan"] is not None:
        install_handshake_loss()
        out.counters["handshake_loss_configs"] += 1
    try:
        # out-of-band negotiated channels exist on both sides by definition
        for x, y in ((a, b), (b, a)):
            for ch in list(x.channels):
                if ch.negotiated and not any(c.negotiated and c.id == ch.id for c in y.channels):
                    y.channels.append(y.pc.createDataChannel(ch.label, negotiated=True, id=ch.id, maxRetransmits=ch.maxRetransmits,
                                                             maxPacketLifeTime=ch.maxPacketLifeTime))
        if not await round_(a, b, out, desc, "first", cfg.get("foreign")):
            return
        fu = cfg.get("followup")
        if fu in ("add-media", "swap-add-media"):
            (b if fu.startswith("swap") else a).add_item(("t", "video", "sendrecv", "addTransceiver-track", None))
        if fu == "add-dc":
            a.add_item(("dc", "late", None, False))
        if fu:
            if fu.startswith("swap"):
                await round_(b, a, out, desc, "follow-up (sides swapped)")
            else:
                await round_(a, b, out, desc, "follow-up")
    finally:
        out.counters["handshake_datagrams_dropped"] += len(LOSS["dropped"])
        LOSS["plan"] = None
        for p in (a, b):
            try:
                await asyncio.wait_for(p.pc.close(), 15)
            except Exception:
                pass
            for tr in p.tracks:
                tr.stop()


def restrict_answerer(cfg):
    """Answerer codec preferences that cannot empty the intersection (see ASSUMPTIONS)."""
    items = []
    for it in cfg["answerer"]["items"]:
        if it[0] == "t" and it[4] in ("single", "subset"):
            it = it[:4] + ("permute",)
        items.append(it)
    cfg["answerer"]["items"] = items
    return cfg


def plan(tier):
    if tier == "thorough":
        return dict(cases=4800, shards=16, timeout=3400, min_nontrivial=800, case_alarm=600)
    return dict(cases=192, shards=16, timeout=500, min_nontrivial=40, case_alarm=300)


_SMALL = []


def run_case(index, rng, tier):
    from vt.rigs.pc import config_key, ensure_host_addresses, gen_config, run_async, small_configs

    ensure_host_addresses()
    out = Batch("C03", "c03", checked_counter="negotiations_checked")
    if tier == "thorough" and index < 1200:
        if not _SMALL:
            _SMALL.extend(small_configs())
        cfgs = _SMALL[index::1200]
        out.counters["kind_enum"] += 1
    else:
        cfgs = [restrict_answerer(gen_config(rng)) for _ in range(2)]
        if index % 3 == 2:
            # the offer reaches the answerer with another payload-type / extension-id numbering (a foreign offerer);
            # no tracks, so that no RTP flows with numbers the other side was not told
            for cfg in cfgs:
                cfg["foreign"] = rng.choice(["renumber", "renumber", "unknown-codec"])
                cfg["foreign_variant"] = rng.randrange(1000)
                cfg["followup"] = None
                for s_ in ("offerer", "answerer"):
                    cfg[s_]["items"] = [(i[0], i[1], i[2], "addTransceiver-kind", None) if i[0] == "t" else i for i in cfg[s_]["items"]]
        elif index % 3 == 1:
            for cfg in cfgs:
                layer = rng.choice(["dtls-handshake", "data"])
                # data layer: only the association set-up packets (INIT / INIT ACK, COOKIE ECHO / COOKIE ACK) - a later
                # datagram may carry a message of an unreliable channel, whose loss is legitimate
                cfg["handshake_loss"] = {"role": rng.choice(["server", "client"]), "k": rng.randint(0, 3) if layer != "data" else rng.randint(0, 1),
                                         "layer": layer}
        out.counters["kind_random"] += 1
    for cfg in cfgs:
        key = config_key(cfg) + (cfg.get("foreign"),)
        desc = {"config": repr(key)[:700], "handshake_loss": cfg.get("handshake_loss"), "foreign_variant": cfg.get("foreign_variant", 0)}
        try:
            run_async(run_config(cfg, out, desc), timeout=150)
        except asyncio.TimeoutError:
            out.inconclusive = "configuration run exceeded 150 s"
        sections = sum(1 for i in cfg["offerer"]["items"] if i[0] == "t") + (1 if any(i[0] == "dc" for i in cfg["offerer"]["items"]) else 0)
        if sections >= 2 or cfg["answerer"]["items"]:
            out.distinct(key)
        if out.want_sample():
            out.sample(desc)
    res = out.result()
    res["evals"] = out.counters.get("negotiations_checked", 0)
    return res
