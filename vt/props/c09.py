"""C09 - session descriptions survive parse/serialise round trips (Pure + R-PC output, DESIGN 3/C09)."""
import copy
import glob
import os
import re

from vt.core.batch import Batch

ID = "C09"
LEVEL = "exploration"
RULE = ("W1 (library-generated): every createOffer/createAnswer/localDescription text of offer/answer rounds (and a follow-up "
        "round) between two real RTCPeerConnections over generated configurations (0-4 transceivers x direction x addTrack / "
        "addTransceiver x codec preferences x data channels x bundle policy on both sides): str(parse(t)) == t, and every field "
        "named by the statement as parsed must agree with an independent line reader of the text. W2 (objects): "
        "SessionDescription / MediaDescription objects built as the library builds them from generated field values (ports, "
        "IPv4/IPv6 hosts, mids, msid, directions, 1-8 codecs with fmtp dicts and feedback lists, extmaps, 0-3 SSRCs + FID groups, "
        "ICE ufrag/pwd/options/lite, 0-6 candidates of every type/transport with and without raddr/rport/tcptype, fingerprints, "
        "every setup role, sctp-port / legacy sctpmap, max-message-size, BUNDLE / msid-semantic groups): parse(str(o)) is "
        "field-equal to o and str(parse(t)) == t. W3 (accepted text): the texts of W1/W2 and the SDP literals found in "
        "tests/test_sdp.py (read as data) under grammar-preserving mutations (attribute deletion / duplication / reordering, "
        "session-level vs media-level ice/fingerprint/setup, unknown attributes, rtcp-fb:*, extmap direction, extra candidate "
        "extensions, LF vs CRLF): if the parser accepts t then s1=str(parse(t)), s2=str(parse(s1)) and s1==s2; neither step may "
        "raise. Candidate lines and the signalling helper round-trip exactly. Distinct/non-trivial = distinct normalised "
        "attribute shapes of the texts."
        " W1 also contains the episode 'valid offer, then an offer with no common codec (refused), then createAnswer()': what the library generates afterwards must round-trip too.")
ASSUMPTIONS = [
    "connection addresses are generated as IP literals (one dedicated stratum probes a host name)",
    "W3: the parser rejecting a mutated text (any exception) is not a violation; only accepted texts are judged",
]
DECIDING = ["w1_texts", "w2_objects", "w3_accepted", "candidate_lines"]

FIELDS_NOTE = "media kinds, ports, mids, directions, codecs+parameters+feedback, header extensions, SSRCs+groups, ICE, candidates, DTLS, SCTP, groups"


# ------------------------------------------------------------------------------------------------ field extraction


def cand_tuple(c):
    return (c.foundation, c.component, c.protocol, c.priority, c.ip, c.port, c.type, c.relatedAddress, c.relatedPort, c.tcpType)


def media_fields(m):
    return {
        "kind": m.kind, "port": m.port, "host": m.host, "profile": m.profile, "fmt": [str(x) for x in m.fmt],
        "direction": m.direction, "msid": m.msid, "rtcp": (m.rtcp_port, m.rtcp_host, m.rtcp_mux),
        "ssrc": [(s.ssrc, s.cname, s.msid, s.mslabel, s.label) for s in m.ssrc],
        "ssrc_group": [(g.semantic, list(g.items)) for g in m.ssrc_group],
        "codecs": [(c.payloadType, c.mimeType.lower(), c.clockRate, c.channels,
                    [(f.type, f.parameter or None) for f in c.rtcpFeedback], dict(c.parameters)) for c in m.rtp.codecs],
        "extmap": [(h.id, h.uri) for h in m.rtp.headerExtensions],
        "mid": m.rtp.muxId,
        "sctp": (m.sctp_port, dict(m.sctpmap), m.sctpCapabilities.maxMessageSize if m.sctpCapabilities else None),
        "dtls": ([(f.algorithm, f.value) for f in m.dtls.fingerprints], m.dtls.role) if m.dtls else None,
        "ice": (m.ice.usernameFragment, m.ice.password, bool(m.ice.iceLite)) if m.ice else None,
        "ice_options": m.ice_options,
        "candidates": [cand_tuple(c) for c in m.ice_candidates], "candidates_complete": m.ice_candidates_complete,
    }


def session_fields(s):
    return {"version": s.version, "origin": s.origin, "name": s.name, "time": s.time, "host": s.host,
            "group": [(g.semantic, [str(i) for i in g.items]) for g in s.group],
            "msid_semantic": [(g.semantic, [str(i) for i in g.items]) for g in s.msid_semantic],
            "media": [media_fields(m) for m in s.media]}


def diff_fields(a, b, path=""):
    out = []
    if isinstance(a, dict) and isinstance(b, dict):
        for k in a:
            out += diff_fields(a[k], b.get(k), f"{path}/{k}")
    elif isinstance(a, list) and isinstance(b, list) and len(a) == len(b) and a and isinstance(a[0], dict):
        for i, (x, y) in enumerate(zip(a, b)):
            out += diff_fields(x, y, f"{path}[{i}]")
    elif a != b:
        out.append((path, repr(a)[:120], repr(b)[:120]))
    return out


def read_text(t):
    """Independent line reader (no aiortc.sdp): the facts the statement lists, per section."""
    sections = []
    cur = {"lines": []}
    session = cur
    for line in t.splitlines():
        if line.startswith("m="):
            cur = {"lines": [], "m": line[2:].split(" ")}
            sections.append(cur)
        cur["lines"].append(line)
    out = {"groups": [l[len("a=group:"):] for l in session["lines"] if l.startswith("a=group:")],
           "msid_semantic": [l[len("a=msid-semantic:"):] for l in session["lines"] if l.startswith("a=msid-semantic:")],
           "media": []}
    for sec in sections:
        L = sec["lines"]

        def attr(name):
            return [l[len("a=" + name + ":"):] for l in L if l.startswith("a=" + name + ":")]

        out["media"].append({
            "kind": sec["m"][0], "port": int(sec["m"][1]), "fmt": sec["m"][3:],
            "mid": (attr("mid") or [""])[0],
            "direction": next((l[2:] for l in L if l[2:] in ("sendrecv", "sendonly", "recvonly", "inactive")), None),
            "rtpmap": attr("rtpmap"), "fmtp": attr("fmtp"), "rtcp_fb": attr("rtcp-fb"), "extmap": attr("extmap"),
            "ssrc": attr("ssrc"), "ssrc_group": attr("ssrc-group"), "ufrag": attr("ice-ufrag"), "pwd": attr("ice-pwd"),
            "ice_options": attr("ice-options"), "candidates": attr("candidate"), "fingerprints": attr("fingerprint"),
            "setup": attr("setup"), "sctp_port": attr("sctp-port"), "max_message_size": attr("max-message-size"),
            "msid": attr("msid"),
        })
    return out


def check_against_reader(t, parsed, out, desc):
    r = read_text(t)
    f = session_fields(parsed)
    problems = []
    if [f"{s} {' '.join(i)}".strip() for s, i in f["group"]] != [g.strip() for g in r["groups"]]:
        problems.append(("group", f["group"], r["groups"]))
    if [f"{s} {' '.join(i)}".strip() for s, i in f["msid_semantic"]] != [g.strip() for g in r["msid_semantic"]]:
        problems.append(("msid-semantic", f["msid_semantic"], r["msid_semantic"]))
    if len(f["media"]) != len(r["media"]):
        problems.append(("media-count", len(f["media"]), len(r["media"])))
    for i, (m, x) in enumerate(zip(f["media"], r["media"])):
        def p(name, a, b):
            if a != b:
                problems.append((f"media[{i}].{name}", repr(a)[:100], repr(b)[:100]))
        p("kind", m["kind"], x["kind"])
        p("port", m["port"], x["port"])
        p("fmt", m["fmt"], x["fmt"])
        p("mid", m["mid"], x["mid"])
        p("direction", m["direction"], x["direction"])
        p("msid", m["msid"], (x["msid"] or [None])[0])
        p("rtpmap", [f"{c[0]} {c[1].split('/')[1]}/{c[2]}" + ("/2" if c[3] == 2 else "") for c in m["codecs"]],
          [v if v.lower() == v else v.split(" ")[0] + " " + v.split(" ", 1)[1].lower() for v in x["rtpmap"]]) if False else None
        p("rtpmap-count", len(m["codecs"]), len(x["rtpmap"]))
        for c, raw in zip(m["codecs"], x["rtpmap"]):
            pt, d = raw.split(" ", 1)
            bits = d.split("/")
            p("rtpmap", (c[0], c[1].split("/")[1], c[2], 2 if c[3] == 2 else None), (int(pt), bits[0].lower(), int(bits[1]), 2 if len(bits) > 2 and bits[2] == "2" else None))
        fb = [f"{c[0]} {t_}" + (f" {par}" if par else "") for c in m["codecs"] for t_, par in c[4]]
        p("rtcp-fb", sorted(fb), sorted(x["rtcp_fb"]))
        fmtp = {}
        for raw in x["fmtp"]:
            pt, d = raw.split(" ", 1)
            fmtp[int(pt)] = d
        for c in m["codecs"]:
            want = ";".join(k if v is None else f"{k}={v}" for k, v in c[5].items())
            p(f"fmtp[{c[0]}]", want, fmtp.get(c[0], ""))
        p("extmap", [f"{i_} {u}" for i_, u in m["extmap"]], x["extmap"])
        p("ssrc-ids", [s[0] for s in m["ssrc"]], list(dict.fromkeys(int(v.split(" ")[0]) for v in x["ssrc"])))
        p("ssrc-cname", [s[1] for s in m["ssrc"]], [v.split("cname:", 1)[1] for v in x["ssrc"] if " cname:" in v])
        p("ssrc-group", [f"{s} {' '.join(map(str, it))}" for s, it in m["ssrc_group"]], x["ssrc_group"])
        p("ice", (m["ice"][0], m["ice"][1]) if m["ice"] else None, ((x["ufrag"] or [None])[0], (x["pwd"] or [None])[0]))
        p("ice-options", m["ice_options"], (x["ice_options"] or [None])[0])
        p("candidates", len(m["candidates"]), len(x["candidates"]))
        for c, raw in zip(m["candidates"], x["candidates"]):
            b = raw.split()
            ext = dict(zip(b[8::2], b[9::2]))
            p("candidate", c, (b[0], int(b[1]), b[2], int(b[3]), b[4], int(b[5]), b[7], ext.get("raddr"),
                               int(ext["rport"]) if "rport" in ext else None, ext.get("tcptype")))
        if m["dtls"]:
            p("fingerprints", [f"{a} {v}" for a, v in m["dtls"][0]], x["fingerprints"])
            p("setup", {"auto": "actpass", "client": "active", "server": "passive"}.get(m["dtls"][1]), (x["setup"] or [None])[0])
        p("sctp-port", m["sctp"][0], int(x["sctp_port"][0]) if x["sctp_port"] else None)
        p("max-message-size", m["sctp"][2], int(x["max_message_size"][0]) if x["max_message_size"] else None)
    if problems:
        out.fail("parsed-fields-differ-from-text:" + problems[0][0].split(".")[-1].split("[")[0],
                 f"parse(t) disagrees with the text: {problems[:3]}", desc)


# ------------------------------------------------------------------------------------------------ W1


async def _w1(cfg, texts):
    from vt.rigs.pc import Peer, negotiate

    a, b = Peer("A", cfg["offerer"]), Peer("B", cfg["answerer"])
    try:
        if cfg.get("rejected_offer"):
            # a valid offer is applied, then a second one which has no codec in common is refused; what the library
            # generates afterwards is still a description and must round-trip like any other
            from aiortc import RTCSessionDescription

            await a.pc.setLocalDescription(await a.pc.createOffer())
            good = a.pc.localDescription.sdp
            await b.pc.setRemoteDescription(a.pc.localDescription)
            # only the last audio/video section loses its codecs (RTX keeps its name): the sections before it are processed first
            parts = re.split(r"(?m)^(?=m=)", good)
            last = max((i for i, p_ in enumerate(parts) if p_.startswith(("m=audio", "m=video"))), default=None)
            if last is None:
                return
            parts[last] = re.sub(r"(?m)^(a=rtpmap:\d+ )(?!rtx/)", r"\1X", parts[last])
            bad = "".join(parts)
            try:
                await b.pc.setRemoteDescription(RTCSessionDescription(sdp=bad, type="offer"))
                refused = False
            except Exception:
                refused = True
            answer = await b.pc.createAnswer()
            rnd = {"offer": good, "createAnswer-after-refused-offer" if refused else "createAnswer-after-second-offer": answer.sdp}
            texts.append(rnd)  # judged even if the calls below fail
            await b.pc.setLocalDescription(answer)
            rnd["answer"] = b.pc.localDescription.sdp
            await a.pc.setRemoteDescription(b.pc.localDescription)
            return
        await negotiate(a, b, texts)
        fu = cfg.get("followup")
        if fu in ("add-media", "swap-add-media"):
            (b if fu.startswith("swap") else a).add_item(("t", "video", "sendrecv", "addTransceiver-kind", None))
        if fu == "add-dc":
            a.add_item(("dc", "late", None, False))
        if fu:
            if fu.startswith("swap"):
                await negotiate(b, a, texts)
            else:
                await negotiate(a, b, texts)
    finally:
        await a.pc.close()
        await b.pc.close()


def case_w1(rng, out, pool):
    from aiortc.sdp import SessionDescription
    from vt.rigs.pc import config_key, ensure_host_addresses, gen_config, run_async

    ensure_host_addresses()
    for _ in range(6):
        cfg = gen_config(rng)
        if rng.random() < 0.25 and any(i[0] == "t" for i in cfg["offerer"]["items"]):
            cfg["rejected_offer"] = True
        desc = {"kind": "W1", "config": repr(config_key(cfg))[:400], "rejected_offer": cfg.get("rejected_offer", False)}
        texts = []
        try:
            run_async(_w1(cfg, texts), timeout=60)
        except Exception as exc:
            out.counters["w1_negotiation_failed"] += 1  # C03's business; the texts produced so far are still judged
        for rnd in texts:
            if any(k.startswith("createAnswer-after-refused") for k in rnd):
                out.counters["w1_answers_after_refused_offer"] += 1
            for name, t in rnd.items():
                d = desc | {"which": name}
                out.counters["w1_texts"] += 1
                pool.append(t)
                try:
                    p = SessionDescription.parse(t)
                    s = str(p)
                except Exception as exc:
                    out.fail("w1-roundtrip-raises", f"{type(exc).__name__}: {exc} on a library-generated {name}", d | {"text": t[:1500]}, exc)
                    continue
                if s != t:
                    a, b = s.splitlines(), t.splitlines()
                    n = next((i for i, (x, y) in enumerate(zip(a, b)) if x != y), min(len(a), len(b)))
                    out.fail("w1-not-a-fixed-point", f"str(parse(t)) != t for a library-generated {name}: line {n}: "
                             f"{a[n] if n < len(a) else None!r} vs {b[n] if n < len(b) else None!r}", d | {"text": t[:1500]})
                check_against_reader(t, p, out, d)
                out.distinct(("w1", shape(t)))
        if out.want_sample() and texts:
            out.sample(desc | {"offer": texts[0]["offer"][:600]})


def shape(t):
    names = []
    for line in t.splitlines():
        if line.startswith("a="):
            names.append(line[2:].split(":")[0].split(" ")[0])
        else:
            names.append(line[:2])
    return hash(tuple(names))


# ------------------------------------------------------------------------------------------------ W2


def gen_candidate(rng):
    from aiortc.rtcicetransport import RTCIceCandidate

    typ = rng.choice(["host", "srflx", "relay", "prflx"])
    proto = rng.choice(["udp", "udp", "tcp", "UDP"])
    c = RTCIceCandidate(component=rng.choice([1, 2]), foundation=rng.choice(["0", "abc123", str(rng.randrange(1 << 32))]),
                        ip=rng.choice(["192.168.1.2", "10.0.0.1", "2001:db8::1", "fe80::1", "203.0.113.77"]),
                        port=rng.choice([0, 1, 9, 5000, 65535]), priority=rng.choice([0, 1, 2130706431, (1 << 32) - 1]),
                        protocol=proto, type=typ)
    if typ != "host" and rng.random() < 0.8:
        c.relatedAddress = rng.choice(["0.0.0.0", "192.168.1.2", "::"])
        c.relatedPort = rng.choice([0, 9, 40000, 65535])
    if proto.lower() == "tcp" and rng.random() < 0.8:
        c.tcpType = rng.choice(["active", "passive", "so"])
    return c


def gen_media(rng, kind, mid):
    from aiortc import sdp
    from aiortc.rtcdtlstransport import RTCDtlsFingerprint, RTCDtlsParameters
    from aiortc.rtcicetransport import RTCIceParameters
    from aiortc.rtcrtpparameters import (RTCRtcpFeedback, RTCRtpCodecParameters, RTCRtpHeaderExtensionParameters,
                                         RTCRtpParameters)
    from aiortc.rtcsctptransport import RTCSctpCapabilities

    if kind == "application":
        legacy = rng.random() < 0.3
        if legacy:
            port = rng.choice([5000, 1, 65535])
            m = sdp.MediaDescription(kind=kind, port=9, profile="DTLS/SCTP", fmt=[port])
            m.sctpmap[port] = f"webrtc-datachannel {rng.choice([256, 1024, 65535])}"
        else:
            m = sdp.MediaDescription(kind=kind, port=9, profile="UDP/DTLS/SCTP", fmt=["webrtc-datachannel"])
            m.sctp_port = rng.choice([5000, 1, 65535])
        m.rtp.muxId = mid
        if rng.random() < 0.8:
            m.sctpCapabilities = RTCSctpCapabilities(maxMessageSize=rng.choice([0, 1, 65536, 262144, (1 << 31) - 1]))
    else:
        codecs = []
        pts = rng.sample(list(range(96, 128)) + [0, 8, 9], rng.randint(1, 8))
        for pt in pts:
            if kind == "audio":
                name, rate, ch = rng.choice([("opus", 48000, 2), ("PCMU", 8000, 1), ("PCMA", 8000, 1), ("G722", 8000, 1), ("telephone-event", 8000, 1)])
            else:
                name, rate, ch = rng.choice([("VP8", 90000, None), ("H264", 90000, None), ("rtx", 90000, None), ("VP9", 90000, None)])
            params = {}
            if name == "rtx":
                params["apt"] = rng.choice(pts)
            elif name == "H264":
                params = {"level-asymmetry-allowed": "1", "packetization-mode": rng.choice(["0", "1"]),
                          "profile-level-id": rng.choice(["42001f", "42e01f", "640c1f"])}
            elif name == "opus" and rng.random() < 0.6:
                # integer-valued fmtp parameters are integers in the library's own objects (capabilities use ints)
                params = rng.choice([{"minptime": 10, "useinbandfec": 1}, {"stereo": 1}, {"usedtx": None, "minptime": 20},
                                     {"maxplaybackrate": 48000, "cbr": "1"}])
            elif name == "VP8" and rng.random() < 0.3:
                params = {"max-fs": 12288, "max-fr": 60}
            fb = []
            if name not in ("rtx",) and rng.random() < 0.7:
                fb = [RTCRtcpFeedback(type=t, parameter=p) for t, p in
                      rng.sample([("nack", None), ("nack", "pli"), ("goog-remb", None), ("ccm", "fir"), ("transport-cc", None)], rng.randint(1, 4))]
            codecs.append(RTCRtpCodecParameters(mimeType=f"{kind}/{name}", clockRate=rate, channels=ch if kind == "audio" else None,
                                                payloadType=pt, rtcpFeedback=fb, parameters=params))
        m = sdp.MediaDescription(kind=kind, port=9, profile="UDP/TLS/RTP/SAVPF", fmt=[c.payloadType for c in codecs])
        m.direction = rng.choice(["sendrecv", "sendonly", "recvonly", "inactive"])
        if rng.random() < 0.8:
            m.msid = f"{rng.choice(['stream', '{a-b}', '-'])} {rng.choice(['track', 'x1'])}"
        exts = [RTCRtpHeaderExtensionParameters(id=i, uri=u) for i, u in zip(
            rng.sample(range(1, 15), 3), rng.sample(["urn:ietf:params:rtp-hdrext:sdes:mid", "urn:ietf:params:rtp-hdrext:ssrc-audio-level",
                                                     "http://www.webrtc.org/experiments/rtp-hdrext/abs-send-time", "urn:3gpp:video-orientation"], 3))]
        m.rtp = RTCRtpParameters(codecs=codecs, headerExtensions=exts[: rng.randint(0, 3)], muxId=mid)
        m.rtcp_host = rng.choice(["0.0.0.0", "::", "192.168.1.2"])
        m.rtcp_port = rng.choice([9, 1, 65535])
        m.rtcp_mux = True
        n_ssrc = rng.choice([0, 1, 2, 3])
        ssrcs = [rng.choice([1, (1 << 32) - 1, rng.randrange(1 << 32)]) for _ in range(n_ssrc)]
        ssrcs = list(dict.fromkeys(ssrcs))
        m.ssrc = [sdp.SsrcDescription(ssrc=s, cname=rng.choice(["cname", "{uuid}", "a b"]),
                                      msid=rng.choice([None, "s t"]), mslabel=rng.choice([None, "s"]), label=rng.choice([None, "t"])) for s in ssrcs]
        if len(ssrcs) >= 2 and rng.random() < 0.7:
            m.ssrc_group = [sdp.GroupDescription(semantic="FID", items=ssrcs[:2])]
    m.host = rng.choice(["0.0.0.0", "192.168.1.2", "::", "2001:db8::1"])
    m.port = rng.choice([9, 0, 1, 65535, 5004])
    m.ice = RTCIceParameters(usernameFragment=rng.choice(["abcd", "u+/f", "x" * 32]), password=rng.choice(["p" * 22, "pass+/word0123456789abc"]),
                             iceLite=False)
    if rng.random() < 0.3:
        m.ice_options = rng.choice(["trickle", "trickle renomination", "ice2"])
    m.ice_candidates = [gen_candidate(rng) for _ in range(rng.randint(0, 6))]
    m.ice_candidates_complete = rng.random() < 0.5
    fps = [RTCDtlsFingerprint(algorithm=a, value=":".join(f"{rng.randrange(256):02X}" for _ in range(n)))
           for a, n in rng.sample([("sha-256", 32), ("sha-384", 48), ("sha-512", 64)], rng.randint(1, 3))]
    m.dtls = RTCDtlsParameters(fingerprints=fps, role=rng.choice(["auto", "client", "server"]))
    return m


def gen_session(rng):
    from aiortc import sdp

    s = sdp.SessionDescription()
    s.version = 0
    s.origin = f"- {rng.randrange(1 << 62)} {rng.randrange(1 << 31)} IN IP4 0.0.0.0"
    s.name = rng.choice(["-", "session", "a b"])
    s.time = "0 0"
    if rng.random() < 0.3:
        s.host = rng.choice(["0.0.0.0", "2001:db8::1"])
    kinds = [rng.choice(["audio", "video", "application"]) for _ in range(rng.randint(1, 5))]
    lite = rng.random() < 0.2
    for i, k in enumerate(kinds):
        m = gen_media(rng, k, rng.choice([str(i), f"mid{i}", f"a{i}-b"]))
        m.ice.iceLite = lite
        s.media.append(m)
    if rng.random() < 0.8:
        s.group.append(sdp.GroupDescription(semantic="BUNDLE", items=[m.rtp.muxId for m in s.media]))
    if rng.random() < 0.7:
        s.msid_semantic.append(sdp.GroupDescription(semantic="WMS", items=rng.choice([["*"], ["stream"], []])))
    return s


def case_w2(rng, out, pool):
    from aiortc.sdp import SessionDescription

    for _ in range(40):
        o = gen_session(rng)
        desc = {"kind": "W2", "sections": [m.kind for m in o.media]}
        try:
            t = str(o)
            p = SessionDescription.parse(t)
            s = str(p)
        except Exception as exc:
            out.fail("w2-roundtrip-raises", f"{type(exc).__name__}: {exc}", desc, exc)
            continue
        out.counters["w2_objects"] += 1
        pool.append(t)
        d = diff_fields(session_fields(o), session_fields(p))
        if d:
            out.fail("w2-field-lost:" + d[0][0].split("/")[-1].split("[")[0], f"parse(str(o)) differs from o: {d[:3]}", desc | {"text": t[:1200]})
        if s != t:
            a, b = s.splitlines(), t.splitlines()
            n = next((i for i, (x, y) in enumerate(zip(a, b)) if x != y), min(len(a), len(b)))
            out.fail("w2-not-a-fixed-point", f"str(parse(t)) != t: line {n}: {a[n] if n < len(a) else None!r} vs {b[n] if n < len(b) else None!r}", desc)
        out.distinct(("w2", shape(t)))
        if out.want_sample():
            out.sample(desc | {"text": t[:500]})


# ------------------------------------------------------------------------------------------------ W3

_LITERALS = []


def test_literals():
    if not _LITERALS:
        for path in glob.glob("/repo/tests/test_sdp.py") + glob.glob("/repo/tests/test_rtcpeerconnection.py"):
            try:
                src = open(path).read()
            except OSError:
                continue
            for mobj in re.finditer(r'"""(.*?)"""', src, re.S):
                body = mobj.group(1)
                if "v=0" in body and "m=" in body:
                    import textwrap
                    _LITERALS.append(textwrap.dedent(body).lstrip().replace("\r\n", "\n").replace("\n", "\r\n"))
    return _LITERALS


def mutate(rng, t):
    lines = t.replace("\r\n", "\n").split("\n")
    lines = [l for l in lines if l != ""]
    ops = rng.randint(1, 4)
    for _ in range(ops):
        a_idx = [i for i, l in enumerate(lines) if l.startswith("a=")]
        if not a_idx:
            break
        op = rng.choice(["delete", "dup", "swap", "unknown", "move-session", "fb-star", "extmap-dir", "cand-ext", "dup-rtpmap", "host-name"])
        i = rng.choice(a_idx)
        if op == "delete":
            del lines[i]
        elif op == "dup":
            lines.insert(i, lines[i])
        elif op == "swap":
            j = rng.choice(a_idx)
            first_m = next((k for k, l in enumerate(lines) if l.startswith("m=")), len(lines))
            if (i < first_m) == (j < first_m):
                lines[i], lines[j] = lines[j], lines[i]
        elif op == "unknown":
            lines.insert(i, rng.choice(["a=x-unknown:1 2 3", "a=bundle-only", "a=rtcp-rsize", "b=AS:500", "a=extmap-allow-mixed"]))
        elif op == "move-session":
            cand = [k for k in a_idx if lines[k].startswith(("a=ice-ufrag", "a=ice-pwd", "a=fingerprint", "a=setup", "a=ice-options"))]
            if cand:
                k = rng.choice(cand)
                l = lines.pop(k)
                first_m = next((q for q, x in enumerate(lines) if x.startswith("m=")), len(lines))
                lines.insert(first_m, l)
        elif op == "fb-star":
            fb = [k for k in a_idx if lines[k].startswith("a=rtcp-fb:")]
            if fb:
                k = rng.choice(fb)
                lines[k] = "a=rtcp-fb:* " + lines[k].split(" ", 1)[1]
        elif op == "extmap-dir":
            ex = [k for k in a_idx if lines[k].startswith("a=extmap:")]
            if ex:
                k = rng.choice(ex)
                head, uri = lines[k].split(" ", 1)
                lines[k] = head.split("/")[0] + "/" + rng.choice(["sendonly", "recvonly"]) + " " + uri
        elif op == "cand-ext":
            ca = [k for k in a_idx if lines[k].startswith("a=candidate:")]
            if ca:
                k = rng.choice(ca)
                lines[k] += rng.choice([" generation 0", " network-id 1 network-cost 10", " ufrag abcd"])
        elif op == "dup-rtpmap":
            rm = [k for k in a_idx if lines[k].startswith("a=rtpmap:")]
            if rm:
                k = rng.choice(rm)
                lines.insert(k + 1, lines[k])
        elif op == "host-name":
            cl = [k for k, l in enumerate(lines) if l.startswith("c=IN IP4")]
            if cl:
                lines[rng.choice(cl)] = "c=IN IP4 media.example.com"
    eol = rng.choice(["\r\n", "\r\n", "\n"])
    return eol.join(lines) + eol, op


def case_w3(rng, out, pool):
    from aiortc.sdp import SessionDescription

    texts = list(test_literals()) + pool
    if not texts:
        return
    for _ in range(300):
        base = rng.choice(texts)
        t, last_op = mutate(rng, base)
        try:
            p = SessionDescription.parse(t)
        except Exception:
            out.counters["w3_rejected"] += 1
            continue
        out.counters["w3_accepted"] += 1
        desc = {"kind": "W3", "last_mutation": last_op, "text": t[:1500]}
        try:
            s1 = str(p)
        except Exception as exc:
            key = "w3-serialise-raises"
            if "media.example.com" in t:
                key = "w3-host-name-not-serialisable"
            out.fail(key, f"the parser accepted the text but serialising the result raises {type(exc).__name__}: {exc}", desc, exc)
            continue
        try:
            s2 = str(SessionDescription.parse(s1))
        except Exception as exc:
            out.fail("w3-own-output-rejected", f"the library cannot re-read / re-emit its own output: {type(exc).__name__}: {exc}", desc | {"s1": s1[:1200]}, exc)
            continue
        if s1 != s2:
            a, b = s1.splitlines(), s2.splitlines()
            n = next((i for i, (x, y) in enumerate(zip(a, b)) if x != y), min(len(a), len(b)))
            dup_rtpmap = len(re.findall(r"^a=rtpmap:", s1, re.M)) != len(set(re.findall(r"^a=rtpmap:(\d+) ", s1, re.M)))
            out.fail("w3-not-idempotent" + (":duplicate-rtpmap" if dup_rtpmap else ""),
                     f"parse/serialise twice differs from once at line {n}: {a[n] if n < len(a) else None!r} vs {b[n] if n < len(b) else None!r}",
                     desc | {"s1": s1[:1200]})
        out.distinct(("w3", shape(t)))
    if out.want_sample():
        out.sample({"kind": "W3", "bases": len(texts)})


# ------------------------------------------------------------------------------------------------ candidates / signalling


def case_candidates(rng, out):
    from aiortc import RTCSessionDescription
    from aiortc.contrib.signaling import BYE, object_from_string, object_to_string
    from aiortc.sdp import candidate_from_sdp, candidate_to_sdp

    for _ in range(400):
        c = gen_candidate(rng)
        line = candidate_to_sdp(c)
        desc = {"kind": "candidate", "line": line}
        try:
            back = candidate_from_sdp(line)
            again = candidate_to_sdp(back)
        except Exception as exc:
            out.fail("candidate-roundtrip-raises", f"{type(exc).__name__}: {exc}", desc, exc)
            continue
        out.counters["candidate_lines"] += 1
        if again != line or cand_tuple(back) != cand_tuple(c):
            out.fail("candidate-roundtrip", f"{line!r} -> {again!r}", desc)
        c.sdpMid = rng.choice(["0", "audio"])
        c.sdpMLineIndex = rng.choice([0, 1, 5])
        try:
            o = object_from_string(object_to_string(c))
            if cand_tuple(o) != cand_tuple(c) or (o.sdpMid, o.sdpMLineIndex) != (c.sdpMid, c.sdpMLineIndex):
                out.fail("signalling-candidate-roundtrip", f"{line!r}", desc)
        except Exception as exc:
            out.fail("signalling-raises", f"{type(exc).__name__}: {exc}", desc, exc)
        out.distinct(("cand", c.type, c.protocol.lower(), c.relatedAddress is not None, c.relatedPort, c.tcpType is not None))
    d = RTCSessionDescription(sdp="v=0\r\n", type="offer")
    o = object_from_string(object_to_string(d))
    if (o.sdp, o.type) != (d.sdp, d.type) or object_from_string(object_to_string(BYE)) is not BYE:
        out.fail("signalling-description-roundtrip", "description / BYE do not round-trip", {})
    out.sample({"kind": "candidate", "last": line})


def plan(tier):
    if tier == "thorough":
        return dict(cases=9600, shards=16, timeout=3000, min_nontrivial=1500, case_alarm=300)
    return dict(cases=320, shards=16, timeout=400, min_nontrivial=150, case_alarm=200)


def run_case(index, rng, tier):
    out = Batch("C09", "c09", checked_counter="w1_texts")
    pool = []
    k = index % 4
    if k == 0:
        case_w1(rng, out, pool)
        case_w3(rng, out, pool)
        out.counters["kind_w1_w3"] += 1
    elif k == 1:
        case_w2(rng, out, pool)
        case_w3(rng, out, pool)
        out.counters["kind_w2_w3"] += 1
    elif k == 2:
        case_w3(rng, out, [])
        out.counters["kind_w3_literals"] += 1
    else:
        case_candidates(rng, out)
        case_w2(rng, out, pool)
        out.counters["kind_candidates_w2"] += 1
    res = out.result()
    res["evals"] = sum(out.counters.get(k_, 0) for k_ in ("w1_texts", "w2_objects", "w3_accepted", "candidate_lines"))
    return res
