"""C01 - reliable data channels: exactly once, intact, in order (rig R-SCTP, DESIGN 3/C01)."""
from vt.rigs.sctp_workload import gen_program, run_program, summarize_prog

ID = "C01"
LEVEL = "exploration"
RULE = ("Each case = one generated program (1-6 reliable channels - in one case of four sharing the association with partially "
        "reliable ones, which are not judged here - created by either side, DCEP or negotiated, "
        "ordered/unordered; str/bytes messages of 0..48000 bytes incl. fragment-boundary sizes, both directions, bursts) "
        "run on two real RTCSctpTransport stacks in virtual time under a seeded per-datagram fault schedule per direction "
        "(iid/burst loss, outages, SACK-only / retransmission-only loss, duplication x2/x3, delay jitter up to 5 s) until "
        "heal, then drained. The uid-history oracle is evaluated at every message event. A case is non-trivial when the "
        "wire tap saw >=1 dropped DATA datagram, >=1 out-of-order DATA arrival or duplicated datagram, >=1 retransmitted "
        "TSN and >=1 multi-fragment message was delivered; distinct = distinct fault-decision/arrival-order fingerprint."
        ' One case in eight runs a create/send/close program of C13 (channels that come and go, stream ids re-used by later channels) under the same delivery oracle.')
ASSUMPTIONS = [
    "DTLS transport replaced by a duck-typed stand-in whose send never suspends (UDP candidate pair); relay mode (send yields) is a labelled extra configuration",
    "time.time inside aiortc.rtcsctptransport replaced by the virtual clock of the loop",
    "third-party code (pyee, google-crc32c) trusted",
]
DECIDING = ["messages_checked"]
CATS = ("delivery",)


def plan(tier):
    if tier == "thorough":
        return dict(cases=96000, shards=16, timeout=3000, min_nontrivial=8000)
    return dict(cases=1920, shards=16, timeout=400, min_nontrivial=150)


def run_lifecycle_case(index, rng, tier):
    """Channels that come and go (the create / send / close programs of C13, ids re-used by later channels): the delivery
    oracle is the same - what a reliable channel delivers is a duplicate-free prefix of what was sent on it, intact."""
    from vt.props import c13

    r = c13.run_case(index, rng, tier, force_shape="directed-id-reuse" if index % 48 == 6 else None)
    viol = [{"key": "C01/" + ("id-reused-while-peer-closing" if v.get("id_reused_while_peer_closing") else str(v["key"])),
             "what": v["what"], "witness": {"v": {k: v[k] for k in v if k not in ("prog", "ops")},
             "prog": v.get("prog"), "ops": v.get("ops"), "kind": "lifecycle program"}}
            for v in r.get("rig_violations", []) if v["cat"] in CATS]
    c = {k: v for k, v in r["counters"].items() if k in ("messages_checked", "close_calls", "open_events", "multifragment_delivered")}
    c["lifecycle_program_cases"] = 1
    c["lifecycle_program_messages_checked"] = c.get("messages_checked", 0)
    return dict(hash="lc" + r["hash"], nontrivial=False, counters=c, violations=viol, evals=c.get("messages_checked", 0),
                inconclusive=r.get("inconclusive"), sample=None)


def run_case(index, rng, tier):
    if index % 8 == 6:
        return run_lifecycle_case(index, rng, tier)
    relay = (index % 10 == 9)
    heavy = (index % 3 == 0)
    # one case in four: partially reliable channels share the association (their abandoning must not disturb reliable ones)
    mode = "mixed" if index % 4 == 1 else "reliable"
    prog = gen_program(rng, mode=mode, heavy=heavy, long=(tier == "thorough" and index % 50 == 7))
    r = run_program(prog, rng, relay=relay)
    c = dict(r["counters"])
    w = r["wire"]
    for k in ("drop_data", "tx_rtx", "rx_data_out_of_order", "tx_sack_with_gaps", "tx_sack_with_dups", "tx_fragment"):
        c["wire_" + k] = w.get(k, 0)
    c["link_dropped"] = r["link"]["dropped"]
    c["link_duplicated"] = r["link"]["duplicated"]
    c["link_reordered"] = r["link"]["reordered"]
    c["relay_mode_cases"] = 1 if relay else 0
    c["mixed_reliability_cases"] = 1 if mode == "mixed" else 0
    viol = []
    for v in r["violations"]:
        if v["cat"] in CATS:
            viol.append({"key": "C01/" + str(v["key"]), "what": v["what"],
                         "witness": {"v": v, "prog": summarize_prog(prog), "specs": r["specs"], "tsn_origins": r.get("origins"), "relay": relay,
                                     "events_tail": r["events_tail"]}})
    nontrivial = (w.get("drop_data", 0) >= 1 and (w.get("rx_data_out_of_order", 0) + r["link"]["duplicated"]) >= 1
                  and w.get("tx_rtx", 0) >= 1 and c.get("multifragment_delivered", 0) >= 1)
    return dict(hash=r["fingerprint"], nontrivial=nontrivial, counters=c, violations=viol,
                evals=c.get("messages_checked", 0),
                sample={"prog": summarize_prog(prog), "specs": r["specs"], "drain": r["drain"],
                        "messages_checked": c.get("messages_checked", 0), "link": r["link"]})
