"""C11 - video frames reach the decoder unspliced; lost packets are recovered by NACK/RTX (rig R-MEDIA, closed loop)."""
import hashlib

from vt.core.batch import Batch

ID = "C11"
LEVEL = "exploration"
RULE = ("Each case = one closed-loop run in virtual time: a real RTCRtpSender fed with a scripted track of 'encoded' frames "
        "(bytes = uid + keyed filler, 1-8 packets each, occasional 20-packet frames; VP8 or H.264 packetiser) -> fault link -> "
        "real RTCRtpReceiver (router, RTX unwrap, NACK generator, depayloader, jitter buffer) whose hand-over to the decoder is "
        "tapped; RTCP flows back over a second fault link. RTX negotiated or not; sequence-number and timestamp origins anywhere, "
        "in a third of the cases just before the wrap. Three phases: hostile (loss / duplication / reordering in both "
        "directions), recoverable (first transmissions are lost, duplicated and reordered, but retransmissions and RTCP get "
        "through), clean. Safety at every hand-over: the frame is byte-identical to a sent frame, or a proper tail of one that is "
        "the first frame of the stream or follows a PLI seen on the wire; frames come in sending order without duplicates. "
        "Recovery: every packet lost in the recoverable phase is named by a NACK and retransmitted (as RTX with the original "
        "sequence number in front when negotiated, verbatim otherwise), and every frame sent in the recoverable and clean phases "
        "is handed over by the end of the run; every NACK lists <= 128 sequence numbers spanning at most 128. "
        "Non-trivial = >= 1 loss recovered through NACK and >= 1 reordering; distinct = fault fingerprint."
        ' A monitor on the real JitterBuffer.add records restarts (origin moved back to a late packet) and which frames were held at that moment; a directed stratum (index % 48 == 7) spells out the history behind the known finding late-packet-restarts-jitter-buffer.')
ASSUMPTIONS = [
    "DTLS/SRTP bypassed (real RTCDtlsTransport object forced to 'connected', plaintext handed to the link): C04 covers the crypto path",
    "the decoder thread is replaced by a synchronous tap (queue/threading names substituted in aiortc.rtcrtpreceiver)",
    "loss bursts in the recoverable phase are shorter than the 128-packet retransmission history",
]
DECIDING = ["frames_checked", "recovery_checks", "nacks_checked"]


def frame_bytes(i, npk, codec):
    head = f"F{i}:".encode()
    size = npk * 1280 - 40 if npk > 1 else 200 + (i % 7) * 100
    body = hashlib.shake_128(head).digest(size)
    if codec == "H264":
        # one NAL unit per frame, Annex-B clean body
        body = bytes(b or 1 for b in body)
        return b"\x00\x00\x00\x01" + bytes([0x65]) + head + body
    return head + body


class ScriptedLoss:
    """First transmissions named by their ordinal are dropped; retransmissions are dropped until `until` first transmissions
    went out and get through afterwards; nothing else is touched."""

    forced = None
    heal = 1e18

    def __init__(self, latency, drop, until):
        self.latency = latency
        self.drop = set(drop)
        self.until = until
        self.n = 0
        self.spec = {"scripted": {"drop_media_ordinals": sorted(drop), "retransmissions_dropped_until_media_ordinal": until}}

    def decide(self, now, t0, ordinal, kind):
        if "rtcp" in kind:
            return [self.latency]
        if "retransmission" in kind:
            return [] if self.n <= self.until else [self.latency]
        i = self.n
        self.n += 1
        return [] if i in self.drop else [self.latency]


def gen_directed(rng):
    """The history behind the known finding late-packet-restarts-jitter-buffer, spelled out: packet X (the last one of frame k) is
    lost and so are its retransmissions; 128 packets later the buffer gives frame k up and catches up; one packet Y of the frame
    then in flight is lost too, which makes the receiver ask for X and Y again; this time both get through - X arrives >= 100
    behind the buffer's origin."""
    from vt.core.net import PhasedModel

    codec = rng.choice(["VP8", "H264"])
    rtx = rng.random() < 0.5
    n = 120
    npk = 20
    frames = [frame_bytes(i, npk, codec) for i in range(n)]
    k = rng.randint(20, 70)
    s0 = k * npk
    x = s0 + rng.randint(npk - 4, npk - 1)
    y = s0 + 129
    interval = 1 / 30
    total = n * interval
    lat = rng.choice([0.002, 0.005])
    wrap = rng.random() < 0.35
    seq_origin = (65536 - rng.randint(1, 600)) if wrap else rng.randrange(32768)
    rtp_model = ScriptedLoss(lat, {x, y}, y)
    rtcp_model = PhasedModel([], latency=lat)
    rtcp_model.phases = []
    return dict(codec=codec, rtx=rtx, frames=frames, seq_origin=seq_origin, ts_origin=rng.getrandbits(32), interval=interval,
                t1=0.0, t2=total, total=total, rtp_model=rtp_model, rtcp_model=rtcp_model, wrap=wrap,
                excused={k},  # the script withholds the retransmissions of X until the buffer gave frame k up
                specs={"directed": rtp_model.spec["scripted"], "frame_packets": npk, "k": k})


def gen_case(rng):
    from vt.core.net import FaultModel, PhasedModel

    codec = rng.choice(["VP8", "VP8", "H264"])
    rtx = rng.random() < 0.6
    n = rng.choice([120, 200, 300])
    frames = []
    for i in range(n):
        npk = 20 if rng.random() < 0.02 else rng.randint(1, 8)
        frames.append(frame_bytes(i, npk, codec))
    wrap = rng.random() < 0.35
    seq_origin = (65536 - rng.randint(1, 600)) if wrap else rng.randrange(32768)
    ts_origin = ((1 << 32) - rng.randint(1, 100) * 3000) if rng.random() < 0.35 else rng.getrandbits(32)
    interval = 1 / 30
    total = n * interval
    t1, t2 = total * 0.35, total * 0.75
    lat = rng.choice([0.005, 0.02, 0.05])
    hostile = {"latency": lat, "loss": rng.choice([0.02, 0.1, 0.25]), "dup": rng.choice([0.0, 0.1]), "jitter": rng.choice([0.0, 0.01, 0.08])}
    if rng.random() < 0.3:
        hostile["gilbert"] = (0.05, 0.4)
    recover = {"latency": lat, "loss": rng.choice([0.03, 0.1, 0.2]), "dup": rng.choice([0.0, 0.1]), "jitter": rng.choice([0.0, 0.01, 0.04]),
               "spare": ["retransmission"]}
    hostile_back = {"latency": lat, "loss": rng.choice([0.0, 0.1, 0.3]), "dup": rng.choice([0.0, 0.1])}
    rtp_model = PhasedModel([(t1, FaultModel(rng, 1e18, hostile)), (t2, FaultModel(rng, 1e18, recover))], latency=lat)
    rtcp_model = PhasedModel([(t1, FaultModel(rng, 1e18, hostile_back))], latency=lat)
    return dict(codec=codec, rtx=rtx, frames=frames, seq_origin=seq_origin, ts_origin=ts_origin, interval=interval,
                t1=t1, t2=t2, total=total, rtp_model=rtp_model, rtcp_model=rtcp_model, wrap=wrap,
                specs={"hostile": hostile, "recoverable": recover, "rtcp_hostile": hostile_back})


def run_case(index, rng, tier):
    from vt.rigs.media import PairRig

    out = Batch("C11", "c11", checked_counter="frames_checked")
    directed = index % 48 == 7
    c = gen_directed(rng) if directed else gen_case(rng)
    relay = index % 9 == 8
    desc = {"codec": c["codec"], "rtx": c["rtx"], "frames": len(c["frames"]), "seq_origin": c["seq_origin"], "ts_origin": c["ts_origin"],
            "specs": c["specs"], "relay": relay, "phases": [round(c["t1"], 2), round(c["t2"], 2), round(c["total"], 2)]}
    rig = PairRig(rng, c["frames"], codec=c["codec"], rtx=c["rtx"], seq_origin=c["seq_origin"], ts_origin=c["ts_origin"],
                  spec_rtp=c["rtp_model"], spec_rtcp=c["rtcp_model"], interval=c["interval"], relay=relay)
    # monitor on the real jitter buffer: a packet the buffer places >= 100 behind its origin makes it start over at that
    # old sequence number (the RFC 3550 "restart" heuristic without the two-sequential-packets confirmation)
    jb = rig.receiver._RTCRtpReceiver__jitter_buffer
    resets = []
    state = {"last_idx": -1}
    jb_add = jb.add

    def add(packet):
        before = jb._origin
        held = {p.timestamp for p in jb._packets if p is not None} if before is not None else set()
        r = jb_add(packet)
        if state.get("pre_origin") is not None and ((jb._origin - state["pre_origin"]) & 0xFFFF) < 0x8000:
            state["pre_origin"] = None  # the buffer has caught up with where it was before the restart
        if before is not None and jb._origin == packet.sequence_number:
            behind = (before - packet.sequence_number) & 0xFFFF
            if 0 < behind < 0x8000:
                # frames (by index) whose packets the restart threw away: they were received, so nobody asks for them again
                cleared = sorted({((ts - c["ts_origin"]) & 0xFFFFFFFF) // 3000 for ts in held})
                resets.append({"t": round(rig.now(), 3), "origin": before, "packet": packet.sequence_number, "behind": behind,
                               "frames_up_to": state["last_idx"], "cleared_frames": cleared})
                if behind >= 100 and state.get("pre_origin") is None:
                    state["pre_origin"] = before  # until the origin is back there the buffer works on the past
        return r

    jb.add = add
    try:
        by_data = {d: i for i, d in enumerate(c["frames"])}
        # H.264: the depayloader always emits 4-byte start codes, which is what the frames carry
        last_idx = -1
        seen = set()
        checked = 0
        pli_seen = 0
        t = 0.0
        end = c["total"] + 3.0
        while t < end:
            t = min(end, t + 0.1)
            rig.advance_to(t)
            while checked < len(rig.decoded):
                item = rig.decoded[checked]
                checked += 1
                if item is None:
                    continue
                name, data, ts = item
                out.counters["frames_checked"] += 1
                d = desc | {"decoded_index": checked - 1, "t": round(rig.now(), 3)}
                idx = by_data.get(data)
                if idx is None:
                    # a proper tail of a sent frame?
                    cand = [i for i, f in enumerate(c["frames"]) if len(data) < len(f) and f.endswith(data)] if data else []
                    head = data[:12]
                    if cand:
                        idx = cand[0]
                        new_pli = rig.decoded_plis[checked - 1] > pli_seen  # PLIs on the wire at the moment of this hand-over
                        first = last_idx == -1
                        out.counters["partial_frames"] += 1
                        in_past = any(r["behind"] >= 100 for r in resets) and (
                            state.get("pre_origin") is not None or any(r["behind"] >= 100 and idx <= r["frames_up_to"] for r in resets))
                        if not (first or new_pli) and in_past:
                            r0 = [r for r in resets if r["behind"] >= 100][-1]
                            out.counters["late_packet_restarts"] += 1
                            out.fail("late-packet-restarts-jitter-buffer", f"decoder got the tail of frame {idx} as a second frame after one discard: the "
                                     f"packet with sequence number {r0['packet']} arrived {r0['behind']} behind the jitter buffer's origin, the buffer "
                                     f"started over there and is reassembling the past", d | {"restart": r0})
                        elif not (first or new_pli):
                            out.fail("frame-tail-without-discard-signal", f"decoder got the last {len(data)} of {len(c['frames'][idx])} bytes of "
                                     f"frame {idx} although it is not the first frame and no PLI went out since the previous frame", d)
                    else:
                        out.fail("frame-corrupt-or-spliced", f"decoder got {len(data)} bytes starting {head!r} which are neither a sent frame "
                                 f"nor the tail of one (previous frame {last_idx})", d)
                        continue
                pli_seen = rig.decoded_plis[checked - 1]
                # known finding: the replay that follows a restart triggered by a late packet >= 100 behind (the unchanged
                # constant) can only concern frames that had already passed when the restart happened
                big = [r for r in resets if r["behind"] >= 100]
                late = [r for r in big if idx <= r["frames_up_to"]]
                if not late and big and (state.get("pre_origin") is not None or idx in state.setdefault("in_the_past", set())):
                    late = big[-1:]  # delivered (now or the first time) while the buffer was still behind its pre-restart origin
                if state.get("pre_origin") is not None:
                    state.setdefault("in_the_past", set()).add(idx)
                if idx in seen or idx < last_idx:
                    how = "twice" if idx in seen else f"after frame {last_idx}"
                    if late:
                        out.counters["late_packet_restarts"] += 1
                        out.fail("late-packet-restarts-jitter-buffer", f"frame {idx} handed to the decoder {how}: the packet with sequence number "
                                 f"{late[-1]['packet']} arrived {late[-1]['behind']} behind the jitter buffer's origin, which made the buffer "
                                 f"start over there and replay what it still received of the old frames", d | {"restart": late[-1]})
                    elif idx in seen:
                        out.fail("frame-duplicated", f"frame {idx} handed to the decoder twice", d | {"restarts": resets[-3:]})
                    else:
                        out.fail("frame-out-of-order", f"frame {idx} handed to the decoder after frame {last_idx}", d | {"restarts": resets[-3:]})
                seen.add(idx)
                last_idx = max(last_idx, idx)
                state["last_idx"] = last_idx
                if name != c["codec"]:
                    out.fail("frame-wrong-codec", f"frame handed over as {name}", d)
        # NACK sanity
        for tn, lost, highest, _ in rig.nacks:
            out.counters["nacks_checked"] += 1
            if len(lost) > 128:
                out.fail("nack-too-long", f"NACK at {tn:.2f} lists {len(lost)} sequence numbers", desc)
            if lost:
                # the listed numbers span at most the 128-packet history (serial arithmetic, relative to the first one)
                rel = [((s - lost[0] + 0x8000) & 0xFFFF) - 0x8000 for s in lost]
                if max(rel) - min(rel) > 128:
                    out.fail("nack-outside-history", f"NACK at {tn:.2f} names sequence numbers {max(rel) - min(rel)} apart: {lost[:4]}..{lost[-3:]}", desc)
        # recovery obligations for the recoverable phase
        out.counters["recovery_checks"] += 1
        lost_rec = [(s, tt) for s, tt in rig.dropped_media if c["t1"] + 0.2 <= tt < c["t2"] - 0.3]
        nacked = set()
        for tn, lost, _, delivered in rig.nacks:
            if tn >= c["t1"]:
                nacked.update(lost)
        resent = {s for s, tt, delivered in rig.rtx_sent if tt >= c["t1"] and delivered}
        never_nacked = [s for s, _ in lost_rec if s not in nacked]
        never_resent = [s for s, _ in lost_rec if s in nacked and s not in resent]
        if never_nacked:
            out.fail("lost-packet-not-nacked", f"{len(never_nacked)} packets lost while retransmission requests get through were never "
                     f"named by a NACK: seq {never_nacked[:6]} (origin {c['seq_origin']})", desc)
        if never_resent:
            out.fail("nacked-packet-not-resent", f"{len(never_resent)} packets were NACKed but not retransmitted: seq {never_resent[:6]} "
                     f"(rtx={c['rtx']})", desc)
        if c["rtx"] and rig.wire.get("verbatim_retransmissions"):
            out.fail("retransmission-not-rtx", f"{rig.wire['verbatim_retransmissions']} retransmissions went out verbatim although RTX is negotiated", desc)
        if not c["rtx"] and rig.wire.get("rtx_packets"):
            out.fail("rtx-without-negotiation", "RTX packets on the wire although RTX was not negotiated", desc)
        sent_rec = [i for i, ts_ in rig.sent_frames.items() if ts_ >= c["t1"] + 0.5 and i < len(c["frames"]) - 2]
        missing = [i for i in sent_rec if i not in seen and i not in c.get("excused", ())]
        thrown = {i for r in resets if r["behind"] >= 100 for i in r["cleared_frames"]}
        by_restart = [i for i in missing if i in thrown]
        missing = [i for i in missing if i not in thrown]
        if by_restart:
            r0 = [r for r in resets if r["behind"] >= 100][0]
            out.counters["late_packet_restarts"] += 1
            out.fail("late-packet-restarts-jitter-buffer", f"frames {by_restart[:6]} never reached the decoder although every packet of them "
                     f"reached the receiver: the retransmission of sequence number {r0['packet']} arrived {r0['behind']} behind the jitter "
                     f"buffer's origin, which made the buffer start over there and throw away what it held", desc | {"restart": r0})
        if directed:
            out.counters["directed_histories"] += 1
            out.counters["directed_restarts_observed"] += 1 if any(r["behind"] >= 100 for r in resets) else 0
        if missing:
            out.fail("frame-never-delivered", f"{len(missing)} frames sent while losses are recoverable never reached the decoder: {missing[:8]} "
                     f"(lost packets in that phase: {len(lost_rec)}, NACKs: {len(rig.nacks)}, retransmissions: {len(rig.rtx_sent)})", desc)
        for name_, exc in rig.handler_error_list:
            out.fail("receive-handler-raises", f"{name_}: {type(exc).__name__}: {exc}", desc, exc)
        out.counters.update({"wire_" + k: v for k, v in rig.wire.items()})
        recovered = len([s for s, _ in lost_rec if s in resent])
        out.counters["losses_recovered"] += recovered
        out.counters["wrap_cases"] += 1 if c["wrap"] else 0
        if recovered and rig.link_ab.reordered:
            out.distinct((rig.link_ab.fingerprint(), rig.link_ba.fingerprint()))
        out.sample(desc | {"decoded": len(seen), "lost_in_recoverable_phase": len(lost_rec), "nacks": len(rig.nacks),
                           "retransmissions": len(rig.rtx_sent), "plis": len(rig.plis)})
    finally:
        rig.close()
    res = out.result()
    res["evals"] = out.counters.get("frames_checked", 0)
    return res


def plan(tier):
    if tier == "thorough":
        return dict(cases=16000, shards=16, timeout=3400, min_nontrivial=2000, case_alarm=120)
    return dict(cases=480, shards=16, timeout=400, min_nontrivial=100, case_alarm=60)
