"""Regenerates MANIFEST.json from the table below (keeps it valid at all times)."""
import json
import os

VERIF = os.path.dirname(os.path.dirname(os.path.abspath(__file__)))

CHECKS = {}
NOT_APPLICABLE = {}


def check(pid, technique, text, note, design):
    CHECKS[pid] = dict(
        property_id=pid,
        quick_cmd=f"./check {pid} --tier quick",
        thorough_cmd=f"./check {pid} --tier thorough",
        evidence_file=f"evidence/{pid}.json",
        replay_cmd_template=f"./check {pid} --replay {{path}}",
        engine="vt",
        level_claimed=dict(category="exploration", text=text, design_ref=design),
        level_note=note,
        technique=technique,
    )


from vt.manifest_table import fill  # noqa: E402

fill(check, NOT_APPLICABLE)

ALL = [f"C{n:02d}" for n in range(1, 20)]
manifest = {
    "version": 1,
    "setup_cmd": "sh ./setup.sh",
    "hooks": {
        "guard": "AIORTC_VERIF",
        "enable": "no in-repository hooks: all instrumentation is applied from the harness (wrapping real callables, "
                  "module-namespace substitution of time/random32/decoder_worker); checks set AIORTC_VERIF=1 for uniformity",
        "baseline_off_cmd": "cd /repo && env -u AIORTC_VERIF /venv/bin/python -m pytest -ra -q -p no:cacheprovider --timeout=900 --continue-on-collection-errors",
        "source_commits": [],
        "add_only": True,
    },
    "engines": [
        {"name": "vt", "path": "vt/", "serves_properties": sorted(CHECKS),
         "kind_free_text": "runtime monitoring: real aiortc code driven by generated hostile workloads in virtual time; "
                           "online history oracles, reference models, contracts, quiescence invariants"}
    ],
    "checks": [CHECKS[p] for p in ALL if p in CHECKS],
    "not_applicable": [{"property_id": p, "reason": NOT_APPLICABLE.get(p, "check not built yet in this session; see DESIGN.md section 6")}
                       for p in ALL if p not in CHECKS],
    "notes": "Exit codes: 0 held on what was observed, 1 VIOLATION, 2 run-level INCONCLUSIVE (no verdict). See DESIGN.md.",
}
with open(os.path.join(VERIF, "MANIFEST.json"), "w") as f:
    json.dump(manifest, f, indent=1)
print("MANIFEST.json:", len(manifest["checks"]), "checks,", len(manifest["not_applicable"]), "not claimed")
