"""R-MEDIA: real RTCRtpSender / RTCRtpReceiver behind real RTCDtlsTransport objects whose handshake and SRTP
layer are bypassed (state forced to 'connected', _send_rtp hands the plaintext to a fault-injecting link), in
virtual time.  The router, header-extension map, RTX/NACK logic, jitter buffer and RTCP loops are the real code.

The decoder thread is replaced from outside: ``aiortc.rtcrtpreceiver.queue`` / ``.threading`` are substituted by
shims so that whatever the receiver hands to its decoder is recorded synchronously, in hand-over order.
"""
import asyncio
import collections
import types

from vt.core.net import FaultModel, Link
from vt.core.vloop import VLoop, VTimeShim

_CERT = []


def certificate():
    from aiortc.rtcdtlstransport import RTCCertificate

    if not _CERT:
        _CERT.append(RTCCertificate.generateCertificate())
    return _CERT[0]


class FakeIce:
    def __init__(self, role):
        self.role = role
        self.state = "completed"

    async def _recv(self):
        await asyncio.Event().wait()

    async def _send(self, data):
        pass


class TapQueue:
    """Stands in for queue.Queue inside aiortc.rtcrtpreceiver: put() records the hand-over to the decoder."""

    sink = None

    def __init__(self):
        self.sink = TapQueue.sink

    def put(self, item):
        if self.sink is not None:
            self.sink(item)


class NoThread:
    def __init__(self, target=None, name=None, args=()):
        self.name = name

    def start(self):
        pass

    def join(self, timeout=None):
        pass


class RandomShim:
    def __init__(self, rng):
        self._rng = rng

    def random(self):
        return self._rng.random()

    def __getattr__(self, name):
        return getattr(self._rng, name)


class MediaEndpoint:
    def __init__(self, rig, name, role):
        from aiortc.rtcdtlstransport import RTCDtlsTransport, State

        self.rig = rig
        self.name = name
        self.dtls = RTCDtlsTransport(FakeIce(role), [certificate()])
        self.dtls._set_state(State.CONNECTING)
        self.dtls._set_state(State.CONNECTED)
        self.link = None
        self.sent = []  # plaintext datagrams handed to the transport
        self.rxq = asyncio.Queue()
        self.pump_task = None
        self.handler_errors = []
        dtls = self.dtls

        async def _send_rtp(data):
            if dtls.state != "connected":
                raise ConnectionError("Cannot send encrypted RTP, not connected")
            self.sent.append(data)
            if self.rig.relay:
                await asyncio.sleep(0)
            if self.link is not None:
                self.link.send(data)

        dtls._send_rtp = _send_rtp

    async def handle(self, data):
        from aiortc.rtp import is_rtcp

        if is_rtcp(data):
            await self.dtls._handle_rtcp_data(data)
        else:
            await self.dtls._handle_rtp_data(data, arrival_time_ms=int(self.rig.loop.time() * 1000))

    async def pump(self):
        """One datagram at a time, as RTCDtlsTransport.__run does."""
        while True:
            data = await self.rxq.get()
            try:
                await self.handle(data)
            except asyncio.CancelledError:
                raise
            except Exception as exc:  # in production this closes the DTLS transport
                self.handler_errors.append(exc)
                self.rig.on_handler_error(self, exc)


class MediaRigBase:
    def __init__(self, rng, relay=False):
        import aiortc.rtcrtpreceiver as rr
        import aiortc.rtcrtpsender as rs

        self.rng = rng
        self.relay = relay
        self.rr, self.rs = rr, rs
        self.loop = VLoop()
        asyncio.set_event_loop(self.loop)
        self.t0 = self.loop.time()
        self._saved = [(rr, "time", rr.time), (rs, "time", rs.time), (rr, "random", rr.random), (rs, "random", rs.random),
                       (rr, "queue", rr.queue), (rr, "threading", rr.threading)]
        shim = VTimeShim(self.loop, rr.time if not isinstance(rr.time, VTimeShim) else rr.time._real)
        rr.time = shim
        rs.time = shim
        rr.random = RandomShim(rng)
        rs.random = RandomShim(rng)
        rr.queue = types.SimpleNamespace(Queue=TapQueue, Empty=self._saved[4][2].Empty)
        rr.threading = types.SimpleNamespace(Thread=NoThread)
        self.decoded = []
        self.handler_error_list = []
        self.loop_exceptions = []
        self.loop.set_exception_handler(self._loop_exception)
        TapQueue.sink = self._decoder_tap

    def _decoder_tap(self, item):
        if item is None:
            self.decoded.append(None)
        else:
            codec, frame = item
            self.decoded.append((codec.name, frame.data, frame.timestamp))

    def _loop_exception(self, loop, context):
        self.loop_exceptions.append({"message": context.get("message"), "exception": repr(context.get("exception"))[:200]})

    def on_handler_error(self, ep, exc):
        self.handler_error_list.append((ep.name, exc))

    def now(self):
        return self.loop.time() - self.t0

    def clock_now(self):
        return self.loop.time()

    def advance_to(self, t):
        target = self.t0 + t
        if target <= self.loop.time():
            self.loop.run_until_idle(self.loop.time())
            return
        r = self.loop.run_until_idle(target)
        if self.loop.time() < target:
            self.loop._vnow = target

    def run(self, coro):
        """Run a coroutine to completion without letting virtual time pass (it must not wait for a timer)."""
        task = self.loop.create_task(coro)
        for _ in range(1000):
            if task.done():
                break
            self.loop.run_until_idle(self.loop.time())
        if not task.done():
            task.cancel()
            self.loop.run_until_idle(self.loop.time())
            raise RuntimeError("coroutine waits for something that needs time to pass")
        return task.result()

    def close_base(self):
        try:
            pending = [t for t in asyncio.all_tasks(self.loop) if not t.done()]
            for t in pending:
                t.cancel()
            if pending:
                self.loop.run_until_idle(self.loop.time() + 0.001)
        finally:
            for mod, name, val in self._saved:
                setattr(mod, name, val)
            TapQueue.sink = None
            asyncio.set_event_loop(None)
            self.loop.close()


def video_codecs(rtx):
    from aiortc.rtcrtpparameters import RTCRtcpFeedback, RTCRtpCodecParameters

    fb = [RTCRtcpFeedback(type="nack"), RTCRtcpFeedback(type="nack", parameter="pli"), RTCRtcpFeedback(type="goog-remb")]
    codecs = [RTCRtpCodecParameters(mimeType="video/VP8", clockRate=90000, payloadType=96, rtcpFeedback=fb)]
    if rtx:
        codecs.append(RTCRtpCodecParameters(mimeType="video/rtx", clockRate=90000, payloadType=97, parameters={"apt": 96}))
    return codecs


class ReceiverRig(MediaRigBase):
    """One real receiver behind a transport that records what it sends (C18 report path, C05 transport cases)."""

    def __init__(self, rng, kind="video", clockrate=90000, ssrc=4242, rtcp_ssrc=99):
        super().__init__(rng)
        from aiortc.rtcrtpparameters import RTCRtpDecodingParameters, RTCRtpReceiveParameters
        from aiortc.rtcrtpreceiver import RemoteStreamTrack, RTCRtpReceiver

        self.ep = MediaEndpoint(self, "R", "controlled")
        self.receiver = RTCRtpReceiver(kind, self.ep.dtls)
        self.receiver._track = RemoteStreamTrack(kind=kind)
        self.receiver._set_rtcp_ssrc(rtcp_ssrc)
        self.ssrc = ssrc
        params = RTCRtpReceiveParameters(codecs=video_codecs(False),
                                         encodings=[RTCRtpDecodingParameters(ssrc=ssrc, payloadType=96)])
        self.run(self.receiver.receive(params))
        self._taken = 0

    def feed_rtp(self, seq, ts, ssrc, payload=b"\x10abc", marker=0):
        from aiortc.rtp import RtpPacket

        p = RtpPacket(payload_type=96, sequence_number=seq, timestamp=ts, ssrc=ssrc, payload=payload, marker=marker)
        self.run(self.ep.handle(p.serialize()))

    def feed_raw(self, data):
        self.run(self.ep.handle(data))

    def take_sent(self):
        out = self.ep.sent[self._taken:]
        self._taken = len(self.ep.sent)
        return out

    def take_receiver_reports(self):
        from aiortc import rtp

        out = []
        for data in self.take_sent():
            if rtp.is_rtcp(data):
                for p in rtp.RtcpPacket.parse(data):
                    if isinstance(p, rtp.RtcpRrPacket):
                        out.append(p)
        return out

    def rtcp_task(self):
        return getattr(self.receiver, "_RTCRtpReceiver__rtcp_task", None)

    def rtcp_task_dead(self):
        t = self.rtcp_task()
        return t is not None and t.done()

    def rtcp_task_error(self):
        t = self.rtcp_task()
        if t is None or not t.done() or t.cancelled():
            return None
        return repr(t.exception())

    def close(self):
        try:
            if not self.rtcp_task_dead():
                self.run(self.receiver.stop())
        except Exception:
            pass
        self.close_base()
