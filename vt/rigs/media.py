"""R-MEDIA: real RTCRtpSender / RTCRtpReceiver behind real RTCDtlsTransport objects whose handshake and SRTP
layer are bypassed (state forced to 'connected', _send_rtp hands the plaintext to a fault-injecting link), in
virtual time.  The router, header-extension map, RTX/NACK logic, jitter buffer and RTCP loops are the real code.

The decoder thread is replaced from outside: ``aiortc.rtcrtpreceiver.queue`` / ``.threading`` are substituted by
shims so that whatever the receiver hands to its decoder is recorded synchronously, in hand-over order.
"""
import asyncio
import collections
import types

from vt.core.net import FaultModel, Link
from vt.core.vloop import VLoop, VTimeShim

_CERT = []


def certificate():
    from aiortc.rtcdtlstransport import RTCCertificate

    if not _CERT:
        _CERT.append(RTCCertificate.generateCertificate())
    return _CERT[0]


class FakeIce:
    def __init__(self, role):
        self.role = role
        self.state = "completed"

    async def _recv(self):
        await asyncio.Event().wait()

    async def _send(self, data):
        pass


class TapQueue:
    """Stands in for queue.Queue inside aiortc.rtcrtpreceiver: put() records the hand-over to the decoder."""

    sink = None

    def __init__(self):
        self.sink = TapQueue.sink

    def put(self, item):
        if self.sink is not None:
            self.sink(item)


class NoThread:
    def __init__(self, target=None, name=None, args=()):
        self.name = name

    def start(self):
        pass

    def join(self, timeout=None):
        pass


class RandomShim:
    def __init__(self, rng):
        self._rng = rng

    def random(self):
        return self._rng.random()

    def __getattr__(self, name):
        return getattr(self._rng, name)


class MediaEndpoint:
    def __init__(self, rig, name, role):
        from aiortc.rtcdtlstransport import RTCDtlsTransport, State

        self.rig = rig
        self.name = name
        self.dtls = RTCDtlsTransport(FakeIce(role), [certificate()])
        self.dtls._set_state(State.CONNECTING)
        self.dtls._set_state(State.CONNECTED)
        self.link = None
        self.sent = []  # plaintext datagrams handed to the transport
        self.rxq = asyncio.Queue()
        self.pump_task = None
        self.handler_errors = []
        dtls = self.dtls

        async def _send_rtp(data):
            if dtls.state != "connected":
                raise ConnectionError("Cannot send encrypted RTP, not connected")
            self.sent.append(data)
            if self.rig.relay:
                await asyncio.sleep(0)
            if self.link is not None:
                self.link.send(data)

        dtls._send_rtp = _send_rtp

    async def handle(self, data):
        from aiortc.rtp import is_rtcp

        if is_rtcp(data):
            await self.dtls._handle_rtcp_data(data)
        else:
            await self.dtls._handle_rtp_data(data, arrival_time_ms=int(self.rig.loop.time() * 1000))

    async def pump(self):
        """One datagram at a time, as RTCDtlsTransport.__run does."""
        while True:
            data = await self.rxq.get()
            try:
                await self.handle(data)
            except asyncio.CancelledError:
                raise
            except Exception as exc:  # in production this closes the DTLS transport
                self.handler_errors.append(exc)
                self.rig.on_handler_error(self, exc)


class MediaRigBase:
    def __init__(self, rng, relay=False):
        import aiortc.rtcrtpreceiver as rr
        import aiortc.rtcrtpsender as rs

        self.rng = rng
        self.relay = relay
        self.rr, self.rs = rr, rs
        self.loop = VLoop()
        asyncio.set_event_loop(self.loop)
        self.t0 = self.loop.time()
        self._saved = [(rr, "time", rr.time), (rs, "time", rs.time), (rr, "random", rr.random), (rs, "random", rs.random),
                       (rr, "queue", rr.queue), (rr, "threading", rr.threading)]
        shim = VTimeShim(self.loop, rr.time if not isinstance(rr.time, VTimeShim) else rr.time._real)
        rr.time = shim
        rs.time = shim
        rr.random = RandomShim(rng)
        rs.random = RandomShim(rng)
        rr.queue = types.SimpleNamespace(Queue=TapQueue, Empty=self._saved[4][2].Empty)
        rr.threading = types.SimpleNamespace(Thread=NoThread)
        self.decoded = []
        self.decoded_plis = []  # number of PLIs seen on the wire when each item was handed to the decoder
        self.handler_error_list = []
        self.loop_exceptions = []
        self.loop.set_exception_handler(self._loop_exception)
        TapQueue.sink = self._decoder_tap

    def _decoder_tap(self, item):
        if item is None:
            self.decoded.append(None)
            self.decoded_plis.append(len(getattr(self, "plis", ())))
        else:
            codec, frame = item
            self.decoded.append((codec.name, frame.data, frame.timestamp))
            self.decoded_plis.append(len(getattr(self, "plis", ())))

    def _loop_exception(self, loop, context):
        self.loop_exceptions.append({"message": context.get("message"), "exception": repr(context.get("exception"))[:200]})

    def on_handler_error(self, ep, exc):
        self.handler_error_list.append((ep.name, exc))

    def now(self):
        return self.loop.time() - self.t0

    def clock_now(self):
        return self.loop.time()

    def advance_to(self, t):
        target = self.t0 + t
        if target <= self.loop.time():
            self.loop.run_until_idle(self.loop.time())
            return
        r = self.loop.run_until_idle(target)
        if self.loop.time() < target:
            self.loop._vnow = target

    def run(self, coro):
        """Run a coroutine to completion without letting virtual time pass (it must not wait for a timer)."""
        task = self.loop.create_task(coro)
        for _ in range(1000):
            if task.done():
                break
            self.loop.run_until_idle(self.loop.time())
        if not task.done():
            task.cancel()
            self.loop.run_until_idle(self.loop.time())
            raise RuntimeError("coroutine waits for something that needs time to pass")
        return task.result()
        return task.result()

    def close_base(self):
        try:
            pending = [t for t in asyncio.all_tasks(self.loop) if not t.done()]
            for t in pending:
                t.cancel()
            if pending:
                self.loop.run_until_idle(self.loop.time() + 0.001)
        finally:
            for mod, name, val in self._saved:
                setattr(mod, name, val)
            TapQueue.sink = None
            asyncio.set_event_loop(None)
            self.loop.close()


def video_codecs(rtx):
    from aiortc.rtcrtpparameters import RTCRtcpFeedback, RTCRtpCodecParameters

    fb = [RTCRtcpFeedback(type="nack"), RTCRtcpFeedback(type="nack", parameter="pli"), RTCRtcpFeedback(type="goog-remb")]
    codecs = [RTCRtpCodecParameters(mimeType="video/VP8", clockRate=90000, payloadType=96, rtcpFeedback=fb)]
    if rtx:
        codecs.append(RTCRtpCodecParameters(mimeType="video/rtx", clockRate=90000, payloadType=97, parameters={"apt": 96}))
    return codecs


class ReceiverRig(MediaRigBase):
    """One real receiver behind a transport that records what it sends (C18 report path, C05 transport cases)."""

    def __init__(self, rng, kind="video", clockrate=90000, ssrc=4242, rtcp_ssrc=99, rtx_ssrc=None):
        super().__init__(rng)
        from aiortc.rtcrtpparameters import RTCRtpDecodingParameters, RTCRtpReceiveParameters, RTCRtpRtxParameters
        from aiortc.rtcrtpreceiver import RemoteStreamTrack, RTCRtpReceiver

        self.ep = MediaEndpoint(self, "R", "controlled")
        self.receiver = RTCRtpReceiver(kind, self.ep.dtls)
        self.receiver._track = RemoteStreamTrack(kind=kind)
        self.receiver._set_rtcp_ssrc(rtcp_ssrc)
        self.ssrc = ssrc
        self.rtx_ssrc = rtx_ssrc
        enc = RTCRtpDecodingParameters(ssrc=ssrc, payloadType=96)
        if rtx_ssrc is not None:
            enc.rtx = RTCRtpRtxParameters(ssrc=rtx_ssrc)
        params = RTCRtpReceiveParameters(codecs=video_codecs(rtx_ssrc is not None), encodings=[enc])
        self.run(self.receiver.receive(params))
        self._taken = 0

    def feed_rtp(self, seq, ts, ssrc, payload=b"\x10abc", marker=0):
        from aiortc.rtp import RtpPacket

        p = RtpPacket(payload_type=96, sequence_number=seq, timestamp=ts, ssrc=ssrc, payload=payload, marker=marker)
        self.run(self.ep.handle(p.serialize()))

    def feed_rtx(self, rtx_seq, ts, original_seq, payload=b"\x10abc"):
        """A retransmission on the RTX stream (RFC 4588): own SSRC, own sequence numbers, original sequence number in front."""
        from aiortc.rtp import RtpPacket

        p = RtpPacket(payload_type=97, sequence_number=rtx_seq, timestamp=ts, ssrc=self.rtx_ssrc,
                      payload=original_seq.to_bytes(2, "big") + payload)
        self.run(self.ep.handle(p.serialize()))

    def feed_raw(self, data):
        self.run(self.ep.handle(data))

    def take_sent(self):
        out = self.ep.sent[self._taken:]
        self._taken = len(self.ep.sent)
        return out

    def take_receiver_reports(self):
        from aiortc import rtp

        out = []
        for data in self.take_sent():
            if rtp.is_rtcp(data):
                for p in rtp.RtcpPacket.parse(data):
                    if isinstance(p, rtp.RtcpRrPacket):
                        out.append(p)
        return out

    def rtcp_task(self):
        return getattr(self.receiver, "_RTCRtpReceiver__rtcp_task", None)

    def rtcp_task_dead(self):
        t = self.rtcp_task()
        return t is not None and t.done()

    def rtcp_task_error(self):
        t = self.rtcp_task()
        if t is None or not t.done() or t.cancelled():
            return None
        return repr(t.exception())

    def close(self):
        try:
            if not self.rtcp_task_dead():
                self.run(self.receiver.stop())
        except Exception:
            pass
        self.close_base()


# ------------------------------------------------------------------------------------------------ sender -> receiver pair


def make_track_class():
    from aiortc.mediastreams import MediaStreamError, MediaStreamTrack

    class ScriptedTrack(MediaStreamTrack):
        """Yields pre-built av.Packet objects (already 'encoded' frames), one per frame interval of virtual time."""

        kind = "video"

        def __init__(self, frames, interval, rig):
            super().__init__()
            self.frames = frames
            self.interval = interval
            self.rig = rig
            self.i = 0

        async def recv(self):
            import av
            import fractions

            if self.readyState != "live" or self.i >= len(self.frames):
                self.stop()
                raise MediaStreamError
            await asyncio.sleep(self.interval)
            data = self.frames[self.i]
            pkt = av.Packet(data)
            pkt.pts = self.i * 3000
            pkt.time_base = fractions.Fraction(1, 90000)
            self.rig.on_frame_sent(self.i, data)
            self.i += 1
            return pkt

    return ScriptedTrack


class PairRig(MediaRigBase):
    """Real RTCRtpSender -> fault link -> real RTCRtpReceiver (video), RTCP on the reverse link, virtual time."""

    def __init__(self, rng, frames, *, codec="VP8", rtx=True, seq_origin=None, ts_origin=None, spec_rtp=None, spec_rtcp=None,
                 heal=1e9, interval=1 / 30, relay=False):
        super().__init__(rng, relay=relay)
        from aiortc.rtcrtpparameters import (RTCRtcpFeedback, RTCRtpCodecParameters, RTCRtpDecodingParameters,
                                             RTCRtpEncodingParameters, RTCRtpHeaderExtensionParameters,
                                             RTCRtpReceiveParameters, RTCRtpRtxParameters, RTCRtpSendParameters)
        from aiortc.rtcrtpreceiver import RemoteStreamTrack, RTCRtpReceiver
        from aiortc.rtcrtpsender import RTCRtpSender

        rs = self.rs
        self._saved += [(rs, "random_sequence_number", rs.random_sequence_number), (rs, "random32", rs.random32)]
        seqs = iter([seq_origin if seq_origin is not None else rng.randrange(32768), rng.randrange(65536)])
        r32 = iter([rng.getrandbits(32) | 1, rng.getrandbits(32) | 1])  # ssrc, rtx ssrc (constructor), then ts origin
        rs.random_sequence_number = lambda: next(seqs, 0)
        state = {"n": 0}

        def random32():
            state["n"] += 1
            if state["n"] <= 2:
                return next(r32)
            return ts_origin if ts_origin is not None else rng.getrandbits(32)

        rs.random32 = random32
        self.A = MediaEndpoint(self, "A", "controlling")
        self.B = MediaEndpoint(self, "B", "controlled")
        self.heal_at = self.t0 + heal
        ma = spec_rtp if hasattr(spec_rtp, "decide") else FaultModel(rng, self.heal_at, spec_rtp if spec_rtp is not None else {"latency": 0.02})
        mb = spec_rtcp if hasattr(spec_rtcp, "decide") else FaultModel(rng, self.heal_at, spec_rtcp if spec_rtcp is not None else {"latency": 0.02})
        self.link_ab = Link(self.loop, "A>B", ma, self.B.rxq.put_nowait, self._classify, self.t0)
        self.link_ba = Link(self.loop, "B>A", mb, self.A.rxq.put_nowait, self._classify, self.t0)
        self.A.link, self.B.link = self.link_ab, self.link_ba
        self.wire = collections.Counter()
        self.seen_media_seq = set()
        self.dropped_media = []   # (seq, t)
        self.rtx_sent = []        # original seq numbers carried by retransmissions seen on the wire
        self.nacks = []           # (t, lost list, highest media seq sent so far)
        self.plis = []            # times
        self.highest_sent = None
        self.sent_frames = {}
        self.frames = frames
        self.codec = codec
        self.rtx = rtx
        self.link_ab.taps.append(self._tap_ab)
        self.link_ba.taps.append(self._tap_ba)
        for ep in (self.A, self.B):
            ep.pump_task = self.loop.create_task(ep.pump())
        Track = make_track_class()
        self.track = Track(frames, interval, self)
        self.sender = RTCRtpSender(self.track, self.A.dtls)
        self.receiver = RTCRtpReceiver("video", self.B.dtls)
        self.receiver._track = RemoteStreamTrack(kind="video")
        self.receiver._set_rtcp_ssrc(0x5EC)
        fb = [RTCRtcpFeedback(type="nack"), RTCRtcpFeedback(type="nack", parameter="pli"), RTCRtcpFeedback(type="goog-remb")]
        codecs = [RTCRtpCodecParameters(mimeType="video/" + codec, clockRate=90000, payloadType=96, rtcpFeedback=fb,
                                        parameters={} if codec == "VP8" else {"packetization-mode": "1", "profile-level-id": "42e01f"})]
        if rtx:
            codecs.append(RTCRtpCodecParameters(mimeType="video/rtx", clockRate=90000, payloadType=97, parameters={"apt": 96}))
        exts = [RTCRtpHeaderExtensionParameters(id=1, uri="urn:ietf:params:rtp-hdrext:sdes:mid"),
                RTCRtpHeaderExtensionParameters(id=2, uri="http://www.webrtc.org/experiments/rtp-hdrext/abs-send-time")]
        sp = RTCRtpSendParameters(codecs=codecs, headerExtensions=exts, muxId="0")
        sp.rtcp.cname = "vt"
        sp.rtcp.ssrc = self.sender._ssrc
        rp = RTCRtpReceiveParameters(codecs=codecs, headerExtensions=exts, muxId="0",
                                     encodings=[RTCRtpDecodingParameters(ssrc=self.sender._ssrc, payloadType=96,
                                                                         rtx=RTCRtpRtxParameters(ssrc=self.sender._rtx_ssrc) if rtx else None)])
        self.run(self.receiver.receive(rp))
        self.run(self.sender.send(sp))

    def on_frame_sent(self, i, data):
        self.sent_frames[i] = self.now()

    def _classify(self, data):
        from aiortc.rtp import is_rtcp

        if is_rtcp(data):
            return ("rtcp",)
        pt = data[1] & 0x7F
        seq = int.from_bytes(data[2:4], "big")
        if pt == 97:
            return ("rtx", "retransmission")
        if seq in self.seen_media_seq:
            return ("media", "retransmission")
        return ("media",)

    def _tap_ab(self, ev, n, data, kind, delays):
        if ev != "tx":
            return
        if "media" in kind or "rtx" in kind:
            seq = int.from_bytes(data[2:4], "big")
            if "rtx" in kind:
                cc = data[0] & 0x0F
                off = 12 + 4 * cc
                if data[0] & 0x10:
                    xlen = int.from_bytes(data[off + 2:off + 4], "big")
                    off += 4 + 4 * xlen
                self.rtx_sent.append((int.from_bytes(data[off:off + 2], "big"), self.now(), bool(delays)))
                self.wire["rtx_packets"] += 1
            elif seq in self.seen_media_seq:
                self.rtx_sent.append((seq, self.now(), bool(delays)))
                self.wire["verbatim_retransmissions"] += 1
            else:
                self.seen_media_seq.add(seq)
                self.highest_sent = seq
                self.wire["media_packets"] += 1
                if not delays:
                    self.dropped_media.append((seq, self.now()))
                    self.wire["media_dropped"] += 1
                elif len(delays) > 1:
                    self.wire["media_duplicated"] += 1

    def _tap_ba(self, ev, n, data, kind, delays):
        from aiortc import rtp

        if ev != "tx" or "rtcp" not in kind:
            return
        try:
            pkts = rtp.RtcpPacket.parse(data)
        except Exception:
            return
        for p in pkts:
            if isinstance(p, rtp.RtcpRtpfbPacket) and p.fmt == rtp.RTCP_RTPFB_NACK:
                self.nacks.append((self.now(), list(p.lost), self.highest_sent, bool(delays)))
                self.wire["nacks"] += 1
            elif isinstance(p, rtp.RtcpPsfbPacket) and p.fmt == rtp.RTCP_PSFB_PLI:
                self.plis.append(self.now())
                self.wire["plis"] += 1
            elif isinstance(p, rtp.RtcpPsfbPacket) and p.fmt == rtp.RTCP_PSFB_APP:
                self.wire["rembs"] += 1
            elif isinstance(p, rtp.RtcpRrPacket):
                self.wire["rrs"] += 1

    def close(self):
        try:
            for ep in (self.A, self.B):
                if ep.pump_task is not None:
                    ep.pump_task.cancel()
            self.link_ab.closed = self.link_ba.closed = True
            try:
                self.run(self.sender.stop())
                self.run(self.receiver.stop())
            except Exception:
                pass
        finally:
            self.close_base()
