"""R-PC: pairs of real RTCPeerConnections (real aioice over local UDP, real DTLS, real time) and the generator of
peer-connection configurations shared by C03, C09, C14 and C19 (DESIGN 2.4)."""
import asyncio
import itertools

BUNDLES = ["balanced", "max-compat", "max-bundle"]
DIRECTIONS = ["sendrecv", "sendonly", "recvonly", "inactive"]
HOWS = ["addTrack", "addTransceiver-kind", "addTransceiver-track"]


def ensure_host_addresses():
    """Offline sandboxes have eth0 192.0.2.2; if there is no non-loopback address aioice gathers nothing:
    substitute loopback (third-party shim, harness side)."""
    import aioice.ice as ice

    try:
        addrs = ice.get_host_addresses(use_ipv4=True, use_ipv6=False)
    except Exception:
        addrs = []
    if not addrs:
        ice.get_host_addresses = lambda use_ipv4=True, use_ipv6=True: ["127.0.0.1"]


def gen_side(rng, role, max_items=4):
    """One peer's set-up program: an ordered list of items created before negotiation."""
    items = []
    n = rng.choice([0, 1, 1, 2, 2, 3, 4]) if role == "offerer" else rng.choice([0, 0, 1, 1, 2, 3])
    n = min(n, max_items)
    for _ in range(n):
        kind = rng.choice(["audio", "video"])
        how = rng.choice(HOWS)
        direction = "sendrecv" if how == "addTrack" else rng.choice(DIRECTIONS)
        prefs = None
        if rng.random() < 0.3:
            prefs = rng.choice(["subset", "permute", "no-rtx", "single"])
        items.append(("t", kind, direction, how, prefs))
    dc = rng.choice([0, 0, 1, 1, 2, 3])
    for _ in range(dc):
        pos = rng.randint(0, len(items))
        items.insert(pos, ("dc", rng.choice(["chat", "data", "é"]), rng.choice([None, "mr0", "life"]), rng.random() < 0.15))
    return {"bundle": rng.choice(BUNDLES), "always_dc": rng.random() < 0.15, "items": items}


def gen_config(rng):
    off = gen_side(rng, "offerer")
    ans = gen_side(rng, "answerer")
    if not off["items"]:
        off["items"].append(rng.choice([("t", "audio", "sendrecv", "addTrack", None), ("dc", "chat", None, False)]))
    followup = rng.choice([None, None, "add-media", "add-dc", "swap", "swap-add-media", "again"])
    return {"offerer": off, "answerer": ans, "followup": followup}


def config_key(cfg):
    def side(s):
        return (s["bundle"], s["always_dc"], tuple((i[0],) + tuple(i[1:4]) + ((i[4],) if i[0] == "t" else ()) for i in s["items"]))
    return (side(cfg["offerer"]), side(cfg["answerer"]), cfg["followup"])


def small_configs():
    """Exhaustive sub-space: <= 2 transceivers on the offerer, no preferences, <= 1 channel, answerer with <= 1 item."""
    out = []
    titems = [("t", k, d, h, None) for k in ("audio", "video") for d, h in
              [("sendrecv", "addTrack"), ("sendrecv", "addTransceiver-kind"), ("sendonly", "addTransceiver-track"),
               ("recvonly", "addTransceiver-kind"), ("inactive", "addTransceiver-kind")]]
    offers = [[a] for a in titems] + [[a, b] for a in titems[:4] for b in titems[5:9]] + [[]]
    for o in offers:
        for dc in (None, "first", "last"):
            if not o and dc is None:
                continue
            items = list(o)
            if dc == "first":
                items.insert(0, ("dc", "chat", None, False))
            elif dc == "last":
                items.append(("dc", "chat", None, False))
            for bundle in BUNDLES:
                for ans_items in ([], [("t", "audio", "sendrecv", "addTrack", None)], [("t", "video", "recvonly", "addTransceiver-kind", None)],
                                  [("dc", "x", None, False)]):
                    out.append({"offerer": {"bundle": bundle, "always_dc": False, "items": items},
                                "answerer": {"bundle": "balanced", "always_dc": False, "items": list(ans_items)},
                                "followup": None})
    return out


class Peer:
    def __init__(self, name, side_cfg, rng=None):
        from aiortc import RTCConfiguration, RTCPeerConnection
        from aiortc.rtcconfiguration import RTCBundlePolicy

        self.name = name
        self.cfg = side_cfg
        policy = {"balanced": RTCBundlePolicy.BALANCED, "max-compat": RTCBundlePolicy.MAX_COMPAT,
                  "max-bundle": RTCBundlePolicy.MAX_BUNDLE}[side_cfg["bundle"]]
        kwargs = {}
        if side_cfg.get("always_dc"):
            kwargs["alwaysNegotiateDataChannels"] = True
        self.pc = RTCPeerConnection(RTCConfiguration(iceServers=[], bundlePolicy=policy, **kwargs))
        self.channels = []  # channels created locally
        self.remote_channels = []
        self.tracks = []
        self.remote_tracks = []
        self.transceivers = []
        self.errors = []
        self.rng = rng
        self.pc.on("datachannel", self.remote_channels.append)
        self.pc.on("track", self.remote_tracks.append)
        for item in side_cfg["items"]:
            self.add_item(item)

    def add_item(self, item):
        from aiortc import RTCRtpSender
        from aiortc.mediastreams import AudioStreamTrack, VideoStreamTrack

        if item[0] == "dc":
            _, label, rel, negotiated = item
            kw = {}
            if rel == "mr0":
                kw["maxRetransmits"] = 0
            elif rel == "life":
                kw["maxPacketLifeTime"] = 500
            if negotiated:
                kw.update(negotiated=True, id=40 + 2 * len(self.channels))
            ch = self.pc.createDataChannel(label, **kw)
            self.channels.append(ch)
            return ch
        _, kind, direction, how, prefs = item
        track = None
        if how in ("addTrack", "addTransceiver-track"):
            track = AudioStreamTrack() if kind == "audio" else VideoStreamTrack()
            self.tracks.append(track)
        if how == "addTrack":
            sender = self.pc.addTrack(track)
            tr = next(t for t in self.pc.getTransceivers() if t.sender is sender)
        else:
            tr = self.pc.addTransceiver(track if track is not None else kind, direction=direction)
        if prefs:
            caps = RTCRtpSender.getCapabilities(kind).codecs
            real = [c for c in caps if not c.mimeType.lower().endswith("/rtx")]
            if prefs == "single":
                chosen = [real[-1]]
            elif prefs == "no-rtx":
                chosen = list(real)
            elif prefs == "permute":
                chosen = list(reversed(caps))
            else:
                chosen = caps[: max(2, len(caps) // 2)]
                if all(c.mimeType.lower().endswith("/rtx") for c in chosen):
                    chosen = real[:1] + chosen
            tr.setCodecPreferences(chosen)
        if tr not in self.transceivers:
            self.transceivers.append(tr)
        return tr


async def negotiate(offerer, answerer, texts=None):
    """One legal offer/answer round. Returns the four description texts."""
    o, a = offerer.pc, answerer.pc
    offer = await o.createOffer()
    await o.setLocalDescription(offer)
    await a.setRemoteDescription(o.localDescription)
    answer = await a.createAnswer()
    await a.setLocalDescription(answer)
    await o.setRemoteDescription(a.localDescription)
    out = {"createOffer": offer.sdp, "offer": o.localDescription.sdp, "createAnswer": answer.sdp, "answer": a.localDescription.sdp}
    if texts is not None:
        texts.append(out)
    return out


def run_async(coro, timeout=60.0):
    """Fresh real-time loop per case. Returns (result, leftover task names)."""
    loop = asyncio.new_event_loop()
    asyncio.set_event_loop(loop)
    loop.set_exception_handler(lambda l, ctx: None)  # background tasks failing during teardown: judged by C19, not printed
    try:
        return loop.run_until_complete(asyncio.wait_for(coro, timeout))
    finally:
        try:
            pending = [t for t in asyncio.all_tasks(loop) if not t.done()]
            for t in pending:
                t.cancel()
            if pending:
                loop.run_until_complete(asyncio.gather(*pending, return_exceptions=True))
            loop.run_until_complete(loop.shutdown_default_executor())
        except Exception:
            pass
        asyncio.set_event_loop(None)
        loop.close()
