"""R-SCTP: two real RTCSctpTransport + RTCDataChannel stacks over fault-injecting links
in virtual time (DESIGN 2.4), with the uid history monitor (DESIGN 2.5-1).

The rig does not decide any property by itself: it records violations in categories,
and the property modules choose which categories refute *their* statement.

Categories (field ``cat`` of a violation record):
  delivery    C01-type: wrong value/type/order/duplicate/cross-talk on a reliable flow
  pr-delivery C06-type: bad delivery on a partially reliable flow
  stall       C02-type: after heal and quiescence something reliable is undelivered / buffered / probe fails
  livelock    C02-type: retransmitting for ever after heal
  pr-postheal C06-type: message sent on a PR channel after heal not delivered
  lifecycle   C13-type: datachannel event/readyState/id/bufferedAmount
  exception   exception escaping _handle_data or a repository task
"""
import asyncio
import collections
import hashlib
import types

from vt.core.net import FaultModel, Link
from vt.core.vloop import VLoop, install_vtime, restore_vtime

MISSING = object()


def filler(key, n):
    if n <= 0:
        return ""
    return hashlib.shake_128(key.encode()).hexdigest((n + 1) // 2)[:n]


UNI = {"a": "é", "b": "€", "c": "\U0001f600", "d": "中"}


def make_payload(flow_id, n, size, as_str, multibyte=False):
    """Value of the n-th message of a flow; ``size`` is the approximate encoded size."""
    head = f"{flow_id}:{n}:"
    body = filler(head, max(0, size - len(head)))
    if as_str:
        if multibyte:
            body = "".join(UNI.get(c, c) for c in body)
        return head + body
    return (head + body).encode()


def payload_id(value):
    """(flow_id, n) or None."""
    try:
        if isinstance(value, bytes):
            s = value[:80].decode("utf8", "replace")
        else:
            s = value[:80]
        a, b, _ = s.split(":", 2)
        return a, int(b)
    except Exception:
        return None


def short(value):
    if isinstance(value, (bytes, str)):
        return [type(value).__name__, len(value), repr(value[:40])]
    return repr(value)


class FakeIce:
    def __init__(self, role):
        self.role = role


def _public_fields(chunk):
    out = {}
    for k, v in vars(chunk).items():
        if k.startswith("_"):
            continue
        if isinstance(v, (list, tuple)):
            v = tuple(tuple(x) if isinstance(x, (list, tuple)) else x for x in v)
        elif isinstance(v, (bytearray, memoryview)):
            v = bytes(v)
        out[k] = v
    return tuple(sorted(out.items(), key=lambda kv: kv[0]))


class FakeDtls:
    """Duck-typed RTCDtlsTransport stand-in: what RTCSctpTransport uses."""

    def __init__(self, role, relay=False):
        self.transport = FakeIce(role)
        self.state = "connected"
        self.link = None
        self.receiver = None
        self.relay = relay
        self.relay_rng = None
        self.relay_heal = 0.0  # like the links, the relay only misbehaves (reorders by suspending sends) until the heal time

    async def _send_data(self, data):
        if self.state != "connected":
            raise ConnectionError("Cannot send encrypted data, not connected")
        if self.relay:
            # behind a relay a send suspends: usually for one loop iteration, now and then for a while (a TURN channel
            # bind, a full socket buffer), during which timers and application calls interleave with the suspended caller
            d = 0
            if self.relay_rng is not None and asyncio.get_running_loop().time() < self.relay_heal and self.relay_rng.random() < 0.15:
                d = self.relay_rng.choice([0.0005, 0.003, 0.02])
            await asyncio.sleep(d)
        self.link.send(data)

    def _register_data_receiver(self, receiver):
        assert self.receiver is None
        self.receiver = receiver

    def _unregister_data_receiver(self, receiver):
        if self.receiver == receiver:
            self.receiver = None


class Flow:
    """One direction of one channel."""

    def __init__(self, fid, chan, src):
        self.fid = fid
        self.chan = chan
        self.src = src  # endpoint name that sends
        self.sent = []  # values, in send() order (logged before the call)
        self.sent_t = []
        self.accepted = []  # bool per send: send() returned without raising
        self.delivered = []  # indices into sent, in delivery order (-1 unknown)
        self.delivered_set = set()
        self.empties_delivered = collections.Counter()
        self.next_ordered = 0
        self.post_heal_from = None
        self.probe_from = None


class Chan:
    def __init__(self, uid, creator, negotiated, params):
        self.uid = uid
        self.creator = creator
        self.negotiated = negotiated
        self.params = params
        self.obj = {}  # endpoint name -> RTCDataChannel
        self.flows = {}
        self.reliable = params.get("maxRetransmits") is None and params.get("maxPacketLifeTime") is None
        self.ordered = params.get("ordered", True)
        self.close_called = False


class ObjMon:
    """Per RTCDataChannel object monitor (C13 lifecycle automaton + bufferedAmount shadow)."""

    ORDER = {"connecting": 0, "open": 1, "closing": 2, "closed": 3}

    def __init__(self, rig, ep, obj, chan):
        self.rig = rig
        self.ep = ep
        self.obj = obj
        self.chan = chan
        self.last_state = obj.readyState
        self.opens = 0
        self.closes = 0
        self.events_after_close = 0
        self.shadow = 0
        self.low_expected = 0
        self.low_seen = 0
        self.states = [obj.readyState]

    def sample(self, where):
        st = self.obj.readyState
        if st != self.last_state:
            if self.ORDER.get(st, -1) < self.ORDER.get(self.last_state, -1):
                self.rig.violation("lifecycle", "readystate-backwards",
                                   f"readyState moved backwards {self.last_state}->{st} ({where})",
                                   chan=self.chan.uid if self.chan else None, ep=self.ep.name)
            self.last_state = st
            self.states.append(st)
        ba = self.obj.bufferedAmount
        self.rig.counters["lifecycle_samples"] += 1
        if ba < 0:
            self.rig.violation("lifecycle", "bufferedamount-negative", f"bufferedAmount {ba} < 0 ({where})",
                               chan=self.chan.uid if self.chan else None, ep=self.ep.name)
        if st == "open" and not self.rig.relay and not self.ep.in_send and not self.ep.dead:
            self.rig.counters["bufferedamount_shadow_checks"] += 1
            if ba != self.shadow:
                self.rig.violation("lifecycle", "bufferedamount-mismatch",
                                   f"bufferedAmount {ba} != bytes accepted and not yet handed to SCTP {self.shadow} ({where})",
                                   chan=self.chan.uid if self.chan else None, ep=self.ep.name)
                self.shadow = ba  # resynchronise: report once per divergence
            if self.low_seen != self.low_expected:
                self.rig.violation("lifecycle", "bufferedamountlow-count",
                                   f"bufferedamountlow fired {self.low_seen} times, {self.low_expected} downward crossings ({where})",
                                   chan=self.chan.uid if self.chan else None, ep=self.ep.name)
                self.low_expected = self.low_seen


class Endpoint:
    def __init__(self, rig, name, role, relay):
        self.rig = rig
        self.name = name
        self.dtls = FakeDtls(role, relay)
        if relay:
            import random as _random
            self.dtls.relay_rng = _random.Random(rig.rng.getrandbits(32))
            self.dtls.relay_heal = rig.heal_at
        self.rxq = None
        self.sctp = None
        self.pump_task = None
        self.dead = False
        self.mons = {}  # id(obj) -> ObjMon
        self.unknown_remote = []
        self.connected_at = None
        self.handler_busy = False
        self.in_send = 0


class SctpRig:
    def __init__(self, rng, *, heal=20.0, spec_ab=None, spec_ba=None, relay=False, origins=None,
                 heavy=False, record_wire=False):
        import aiortc.rtcsctptransport as st

        self.st = st
        self.rng = rng
        self.loop = VLoop()
        asyncio.set_event_loop(self.loop)
        self._saved_time = install_vtime(self.loop, st)
        self._saved_random32 = st.random32
        self.t0 = self.loop.time()
        self.heal = heal
        self.heal_at = self.t0 + heal
        self.relay = relay
        self.counters = collections.Counter()
        self.violations = []
        self.events = collections.deque(maxlen=400)
        self.seq = 0
        self.chans = {}
        self.by_label = {}
        self.task_exceptions = []
        self.record_wire = record_wire
        self.wire = []
        self.trace = []  # observable trace for C17 (delivery events with virtual time)

        self.loop.set_exception_handler(self._loop_exception)

        # scripted sequence-number origins: random32 is called (tag, tsn) per transport
        self.origins = origins or {}
        self.A = Endpoint(self, "A", "controlling", relay)  # client
        self.B = Endpoint(self, "B", "controlled", relay)  # server
        for ep in (self.A, self.B):
            o = self.origins.get(ep.name)
            if o is not None:
                vals = [o.get("tag", rng.getrandbits(32) or 1), o["tsn"]]
                it = iter(vals)
                st.random32 = lambda it=it: next(it)
            else:
                st.random32 = lambda: rng.getrandbits(32)
            ep.sctp = st.RTCSctpTransport(ep.dtls)
            ep.rxq = asyncio.Queue()
            self._wrap_send(ep)
        st.random32 = self._saved_random32

        ma = FaultModel(rng, self.heal_at, spec_ab if spec_ab is not None else FaultModel.random_spec(rng, heavy))
        mb = FaultModel(rng, self.heal_at, spec_ba if spec_ba is not None else FaultModel.random_spec(rng, heavy))
        self.link_ab = Link(self.loop, "A>B", ma, self.B.rxq.put_nowait, self._classifier("A>B"), self.t0)
        self.link_ba = Link(self.loop, "B>A", mb, self.A.rxq.put_nowait, self._classifier("B>A"), self.t0)
        self.A.dtls.link = self.link_ab
        self.B.dtls.link = self.link_ba
        self.link_ab.taps.append(self._tap("A>B"))
        self.link_ba.taps.append(self._tap("B>A"))
        self._seen_tsn = {"A>B": {}, "B>A": {}}
        self._max_data_ord = {}
        self.wirestat = {"A>B": collections.Counter(), "B>A": collections.Counter()}
        self.lowest_rtx = {"A>B": collections.Counter(), "B>A": collections.Counter()}
        self.max_cum_sack = {"A>B": None, "B>A": None}
        self.init_after_connected = {"A": 0, "B": 0}
        self.cumtsn_regress = {"A": 0, "B": 0}
        self.reconfig_dropped = 0
        self.reconfig_req = {}
        self.open_on_closing = set()
        self.reconfig_lost_streams = set()
        self.last_delivery_step = 0

        for ep in (self.A, self.B):
            ep.pump_task = self.loop.create_task(self._pump(ep))
            ep.sctp.on("datachannel", lambda ch, ep=ep: self._on_datachannel(ep, ch))

    # ------------------------------------------------------------------ infrastructure

    def close(self):
        try:
            for ep in (self.A, self.B):
                if ep.pump_task is not None:
                    ep.pump_task.cancel()
            self.link_ab.closed = self.link_ba.closed = True
            # let cancellations run
            self.loop.run_until_idle(self.loop.time() + 0.001)
            pending = [t for t in asyncio.all_tasks(self.loop) if not t.done()]
            for t in pending:
                t.cancel()
            if pending:
                self.loop.run_until_idle(self.loop.time() + 0.001)
        finally:
            restore_vtime(self._saved_time)
            self.st.random32 = self._saved_random32
            asyncio.set_event_loop(None)
            self.loop.close()

    def now(self):
        return round(self.loop.time() - self.t0, 4)

    def log(self, *ev):
        self.seq += 1
        self.events.append((self.now(), self.seq) + ev)

    def violation(self, cat, key, what, **extra):
        self.counters["viol_" + cat] += 1
        if len(self.violations) < 12:
            self.violations.append({"cat": cat, "key": key, "what": what, "t": self.now(),
                                    "ctx": [list(map(str, e)) for e in list(self.events)[-14:]], **extra})
        self.log("VIOLATION", cat, key, what)

    def _loop_exception(self, loop, context):
        exc = context.get("exception")
        msg = context.get("message", "")
        where = None
        if exc is not None:
            where = innermost_repo_frame(exc)
        self.task_exceptions.append({"type": type(exc).__name__ if exc else None, "where": where,
                                     "message": msg, "repr": repr(exc)[:200]})
        self.log("task-exception", type(exc).__name__ if exc else msg, where)

    def _classifier(self, direction):
        parse = self.st.parse_packet
        st = self.st

        def classify(data):
            try:
                _, _, _, chunks = parse(data)
            except Exception:
                return ("garbage",)
            kinds = []
            for c in chunks:
                if isinstance(c, st.DataChunk):
                    seen = self._seen_tsn[direction]
                    if c.tsn in seen:
                        kinds.append("rtx")
                    kinds.append("data")
                elif isinstance(c, st.SackChunk):
                    kinds.append("sack")
                elif isinstance(c, st.ForwardTsnChunk):
                    kinds.append("fwd")
                elif isinstance(c, st.InitChunk):
                    kinds.append("init")
                elif isinstance(c, st.InitAckChunk):
                    kinds.append("initack")
                elif isinstance(c, st.CookieEchoChunk):
                    kinds.append("cookieecho")
                elif isinstance(c, st.CookieAckChunk):
                    kinds.append("cookieack")
                elif isinstance(c, st.ReconfigChunk):
                    kinds.append("reconfig")
                elif isinstance(c, st.AbortChunk):
                    kinds.append("abort")
                else:
                    kinds.append("other")
            return tuple(kinds)

        return classify

    def _tap(self, direction):
        st = self.st
        src = self.A if direction == "A>B" else self.B
        dst = self.B if direction == "A>B" else self.A
        ws = None

        def tap(ev, n, data, kind, delays):
            ws = self.wirestat[direction]
            if ev == "tx":
                for k in kind:
                    ws["tx_" + k] += 1
                if not delays:
                    for k in kind:
                        ws["drop_" + k] += 1
                    if "reconfig" in kind:
                        self.reconfig_dropped += 1
                try:
                    chunks = st.parse_packet(data)[3]
                except Exception as exc:
                    self.violation("wire-conformance", "unparseable", f"{src.name} put a datagram on the wire which its own parser refuses: "
                                   f"{type(exc).__name__}: {exc}", datagram=bytes(data[:120]).hex())
                    return
                for c in chunks:
                    got = (type(c).__name__, _public_fields(c))
                    built = getattr(src, "built", None)
                    if built is not None:
                        self.counters["chunks_on_wire_compared"] += 1
                        if got in built:
                            built.remove(got)
                        else:
                            same = [b for b in built if b[0] == got[0]]
                            self.violation("wire-conformance", got[0], f"{src.name}: the {got[0]} on the wire parses to {str(got[1])[:300]} - no chunk with "
                                           f"these field values was handed to _send_chunk (built, same type: {str(same[-2:])[:400]})")
                for c in chunks:
                    if isinstance(c, st.ReconfigChunk):
                        self._tap_reconfig(direction, c, dropped=not delays)
                        continue
                    if isinstance(c, st.DataChunk):
                        seen = self._seen_tsn[direction]
                        seen[c.tsn] = seen.get(c.tsn, 0) + 1
                        if self.loop.time() >= self.heal_at and seen[c.tsn] > 1:
                            self.lowest_rtx[direction][c.tsn] += 1
                        if not (c.flags & st.SCTP_DATA_FIRST_FRAG and c.flags & st.SCTP_DATA_LAST_FRAG):
                            ws["tx_fragment"] += 1
                    elif isinstance(c, st.SackChunk):
                        if c.gaps:
                            ws["tx_sack_with_gaps"] += 1
                        if c.duplicates:
                            ws["tx_sack_with_dups"] += 1
                        prev = self.max_cum_sack[direction]
                        if prev is not None and st.uint32_gt(prev, c.cumulative_tsn):
                            self.cumtsn_regress[src.name] += 1
                        if prev is None or st.uint32_gt(c.cumulative_tsn, prev):
                            self.max_cum_sack[direction] = c.cumulative_tsn
                if self.record_wire:
                    self.wire.append((self.now(), direction, "tx", [repr(c) for c in chunks], delays))
            else:
                if "init" in kind and dst.connected_at is not None:
                    self.init_after_connected[dst.name] += 1
                if "reconfig" in kind and str(getattr(dst.sctp, "_association_state", "")).endswith("ESTABLISHED") is False:
                    # delivered, but the receiver is not (or no longer) established and ignores it: same as lost
                    try:
                        for c in st.parse_packet(data)[3]:
                            if isinstance(c, st.ReconfigChunk):
                                self._tap_reconfig(direction, c, dropped=True)
                                self.counters["reconfig_ignored_by_state"] += 1
                    except Exception:
                        pass
                if "data" in kind:
                    self._note_open_on_closing(dst, data)
                    if n < self._max_data_ord.get(direction, -1):
                        ws["rx_data_out_of_order"] += 1
                    else:
                        self._max_data_ord[direction] = n

        return tap

    def _note_open_on_closing(self, dst, data):
        """A DCEP OPEN arriving for a stream id whose previous channel is still 'closing' at the receiver (the sender
        freed and re-used the id before the receiver finished the close handshake): classifier of a known finding."""
        st = self.st
        try:
            for c in st.parse_packet(data)[3]:
                if isinstance(c, st.DataChunk) and c.protocol == st.WEBRTC_DCEP and c.user_data[:1] == b"\x03":
                    ch = dst.sctp._data_channels.get(c.stream_id)
                    if ch is not None and ch.readyState == "closing":
                        self.open_on_closing.add((dst.name, c.stream_id))
                        self.counters["open_arrived_on_closing_id"] += 1
        except Exception:
            pass

    def _tap_reconfig(self, direction, chunk, dropped):
        """Which stream ids had a reset request, or the response to it, dropped by the link (D16 classifier)."""
        st = self.st
        back = "B>A" if direction == "A>B" else "A>B"
        try:
            for ptype, pdata in chunk.params:
                cls = st.RECONFIG_PARAM_TYPES.get(ptype)
                if cls is None:
                    continue
                param = cls.parse(pdata)
                if isinstance(param, st.StreamResetOutgoingParam):
                    self.reconfig_req[(direction, param.request_sequence)] = list(param.streams)
                    self.counters["reset_requests_on_wire"] += 1
                    if dropped:
                        self.reconfig_lost_streams.update(param.streams)
                elif isinstance(param, st.StreamResetResponseParam) and dropped:
                    self.reconfig_lost_streams.update(self.reconfig_req.get((back, param.response_sequence), []))
        except Exception:
            pass

    async def _pump(self, ep):
        while True:
            data = await ep.rxq.get()
            if ep.dead or ep.dtls.receiver is None:
                self.counters["rx_dropped_no_receiver"] += 1
                continue
            ep.handler_busy = True
            try:
                await ep.dtls.receiver._handle_data(data)
            except asyncio.CancelledError:
                raise
            except Exception as exc:
                # In production RTCDtlsTransport.__run re-raises and closes the DTLS transport.
                where = innermost_repo_frame(exc)
                detail = exception_detail(exc)
                self.violation("exception", f"{type(exc).__name__}@{where}{detail}",
                               f"{type(exc).__name__} escaped _handle_data at {where}{detail}: {exc!r}"[:300], ep=ep.name)
                ep.dead = True
                ep.dtls.state = "closed"
            finally:
                ep.handler_busy = False
            if ep.connected_at is None and ep.sctp.state == "connected":
                ep.connected_at = self.now()

    def _wrap_send(self, ep):
        """Observe the hand-over of user messages to SCTP (ULP -> stream) for the bufferedAmount shadow."""
        real = ep.sctp._send
        dcep = self.st.WEBRTC_DCEP

        async def _send(stream_id, pp_id, user_data, *a, **kw):
            mon = None
            if pp_id != dcep:
                obj = ep.sctp._data_channels.get(stream_id)
                mon = ep.mons.get(id(obj)) if obj is not None else None
                if mon is not None:
                    before = mon.shadow
                    mon.shadow -= len(user_data)
                    thr = obj.bufferedAmountLowThreshold
                    if before > thr and mon.shadow <= thr:
                        mon.low_expected += 1
                    self.counters["handovers_observed"] += 1
            ep.in_send += 1
            try:
                return await real(stream_id, pp_id, user_data, *a, **kw)
            finally:
                ep.in_send -= 1

        ep.sctp._send = _send

        # chunk -> wire conformance (C08): the public fields of every chunk object the transport hands to _send_chunk are
        # recorded at the call; the datagram that reaches the link must parse back to exactly such a chunk
        real_send_chunk = ep.sctp._send_chunk
        ep.built = []

        async def _send_chunk(chunk):
            ep.built.append((type(chunk).__name__, _public_fields(chunk)))
            if len(ep.built) > 64:
                del ep.built[:16]
            self.counters["chunks_built_observed"] += 1
            return await real_send_chunk(chunk)

        ep.sctp._send_chunk = _send_chunk

    # ------------------------------------------------------------------ channel bookkeeping

    def other(self, ep):
        return self.B if ep is self.A else self.A

    def create_channel(self, ep, uid, *, ordered=True, maxRetransmits=None, maxPacketLifeTime=None,
                       negotiated_id=None, protocol="", label=None):
        from aiortc.rtcdatachannel import RTCDataChannel, RTCDataChannelParameters

        params = dict(ordered=ordered, maxRetransmits=maxRetransmits, maxPacketLifeTime=maxPacketLifeTime,
                      protocol=protocol)
        label = uid if label is None else label
        chan = self.chans.get(uid)
        if chan is None:
            chan = Chan(uid, ep.name, negotiated_id is not None, params)
            chan.label = label
            chan.neg_id = negotiated_id
            self.chans[uid] = chan
            chan.flows["A"] = Flow(uid + ">", chan, "A")
            chan.flows["B"] = Flow(uid + "<", chan, "B")
            if negotiated_id is None:
                self.by_label[label] = chan
        p = RTCDataChannelParameters(label=label, ordered=ordered, maxRetransmits=maxRetransmits,
                                     maxPacketLifeTime=maxPacketLifeTime, protocol=protocol,
                                     negotiated=negotiated_id is not None, id=negotiated_id)
        self.log("create", ep.name, uid, negotiated_id)
        obj = RTCDataChannel(ep.sctp, p)
        self._adopt(ep, obj, chan)
        return chan

    def _adopt(self, ep, obj, chan):
        if chan is not None:
            chan.obj[ep.name] = obj
        mon = ObjMon(self, ep, obj, chan)
        ep.mons[id(obj)] = mon

        def on_open():
            mon.opens += 1
            self.counters["open_events"] += 1
            self.log("open", ep.name, chan.uid if chan else None, obj.id)
            self.trace.append((round(self.loop.time() - self.t0, 6), ep.name, chan.uid if chan else None, "open"))
            if mon.opens > 1:
                self.violation("lifecycle", "open-twice", "more than one open event", ep=ep.name,
                               chan=chan.uid if chan else None)
            if mon.closes:
                self.violation("lifecycle", "event-after-close", "open event after close event", ep=ep.name,
                               chan=chan.uid if chan else None)
            mon.sample("open-event")
            if chan is not None and getattr(chan, "close_on_open", None) == ep.name and not getattr(chan, "close_called", False):
                # an application that closes the channel from inside its open handler
                self.counters["close_in_open_handler"] += 1
                self.close_channel(ep, chan)

        def on_close():
            mon.closes += 1
            self.counters["close_events"] += 1
            self.log("close", ep.name, chan.uid if chan else None, obj.id)
            self.trace.append((round(self.loop.time() - self.t0, 6), ep.name, chan.uid if chan else None, "close"))
            if mon.closes > 1:
                self.violation("lifecycle", "close-twice", "more than one close event", ep=ep.name,
                               chan=chan.uid if chan else None)
            mon.sample("close-event")

        def on_low():
            mon.low_seen += 1
            self.counters["bufferedamountlow_events"] += 1
            if mon.low_seen > mon.low_expected and not self.relay:
                self.violation("lifecycle", "bufferedamountlow-spurious",
                               f"bufferedamountlow without a downward crossing (seen {mon.low_seen}, crossings {mon.low_expected})",
                               chan=chan.uid if chan else None, ep=ep.name)
                mon.low_expected = mon.low_seen

        def on_message(value):
            self._on_message(ep, obj, chan, mon, value)

        obj.on("open", on_open)
        obj.on("close", on_close)
        obj.on("bufferedamountlow", on_low)
        obj.on("message", on_message)
        return mon

    def _on_datachannel(self, ep, obj):
        self.counters["datachannel_events"] += 1
        chan = self.by_label.get(obj.label)
        self.log("datachannel", ep.name, obj.label[:30], obj.id)
        if chan is None or chan.negotiated:
            ep.unknown_remote.append(obj)
            self.violation("lifecycle", "datachannel-unknown",
                           f"datachannel event for a channel nobody opened by DCEP: label={obj.label[:40]!r} id={obj.id}",
                           ep=ep.name)
            self._adopt(ep, obj, None)
            return
        if chan.creator == ep.name:
            self.violation("lifecycle", "datachannel-on-creator",
                           f"datachannel event on the side that created {chan.uid}", ep=ep.name)
            self._adopt(ep, obj, None)
            return
        if ep.name in chan.obj:
            self.violation("lifecycle", "datachannel-twice", f"second datachannel event for {chan.uid}",
                           ep=ep.name, chan=chan.uid)
            self._adopt(ep, obj, None)
            return
        # faithful open: same parameters
        exp = chan.params
        got = dict(ordered=obj.ordered, maxRetransmits=obj.maxRetransmits,
                   maxPacketLifeTime=obj.maxPacketLifeTime, protocol=obj.protocol)
        if got != exp:
            self.violation("lifecycle", "datachannel-params", f"datachannel {chan.uid} params {got} != {exp}",
                           ep=ep.name, chan=chan.uid)
        creator_obj = chan.obj.get(chan.creator)
        if creator_obj is not None and creator_obj.id is not None and creator_obj.id != obj.id:
            self.violation("lifecycle", "datachannel-id", f"datachannel {chan.uid} id {obj.id} != creator's {creator_obj.id}",
                           ep=ep.name, chan=chan.uid)
        if obj.readyState != "open":
            self.violation("lifecycle", "datachannel-not-open", f"announced channel is {obj.readyState}", ep=ep.name)
        self._adopt(ep, obj, chan)

    def _on_message(self, ep, obj, chan, mon, value):
        self.counters["message_events"] += 1
        self.last_delivery_step = self.loop.steps
        if mon.closes:
            self.violation("lifecycle", "event-after-close", "message event after close event", ep=ep.name,
                           chan=chan.uid if chan else None)
        if chan is None:
            self.violation("delivery", "message-on-unknown-channel", f"message on unannounced channel {short(value)}",
                           ep=ep.name)
            return
        flow = chan.flows[self.other(ep).name]  # flow sent by the other endpoint
        cat = "delivery" if chan.reliable else "pr-delivery"
        self.counters["messages_checked"] += 1
        self.trace.append((round(self.loop.time() - self.t0, 6), ep.name, chan.uid, type(value).__name__,
                           len(value), hashlib.blake2b(value if isinstance(value, bytes) else value.encode(),
                                                       digest_size=6).hexdigest()))
        if not isinstance(value, (str, bytes)):
            self.violation(cat, "bad-type", f"message of type {type(value).__name__}", chan=chan.uid)
            return
        pid = payload_id(value) if len(value) else None
        idx = None
        if len(value) == 0:
            self.counters["empty_delivered"] += 1
            if chan.ordered and chan.reliable:
                idx = flow.next_ordered
            else:
                # position cannot identify it: multiset check
                key = type(value).__name__
                flow.empties_delivered[key] += 1
                sent_empties = sum(1 for v in flow.sent if len(v) == 0 and type(v).__name__ == key)
                if flow.empties_delivered[key] > sent_empties:
                    self.violation(cat, "duplicate-or-phantom-empty",
                                   f"{flow.fid}: {flow.empties_delivered[key]} empty {key} delivered, {sent_empties} sent",
                                   chan=chan.uid)
                if chan.ordered:
                    # ordered PR: must come after everything already delivered: find next empty of this type
                    for j in range(flow.next_ordered, len(flow.sent)):
                        if len(flow.sent[j]) == 0 and type(flow.sent[j]).__name__ == key:
                            flow.next_ordered = j + 1
                            flow.delivered.append(j)
                            flow.delivered_set.add(j)
                            break
                    else:
                        self.violation(cat, "order", f"{flow.fid}: empty {key} delivered but none pending after "
                                       f"position {flow.next_ordered}", chan=chan.uid)
                return
        else:
            if pid is None:
                self.violation(cat, "corrupt", f"{flow.fid}: undecodable payload {short(value)}", chan=chan.uid)
                return
            if pid[0] != flow.fid:
                self.violation(cat, "cross-talk", f"message of flow {pid[0]} delivered on {flow.fid} at {ep.name}",
                               chan=chan.uid)
                return
            idx = pid[1]
        if idx >= len(flow.sent):
            self.violation(cat, "never-sent", f"{flow.fid}: message #{idx} delivered, only {len(flow.sent)} sent: {short(value)}",
                           chan=chan.uid)
            return
        exp = flow.sent[idx]
        if type(exp) is not type(value) or exp != value:
            if chan.ordered and chan.reliable and len(value) == 0:
                self.violation(cat, "order", f"{flow.fid}: got empty {type(value).__name__}, expected #{idx} {short(exp)}",
                               chan=chan.uid)
            elif type(exp) is not type(value):
                self.violation(cat, "type-changed", f"{flow.fid}#{idx}: sent {short(exp)} got {short(value)}", chan=chan.uid)
            else:
                self.violation(cat, "corrupt", f"{flow.fid}#{idx}: sent {short(exp)} got {short(value)}", chan=chan.uid)
            return
        if idx in flow.delivered_set:
            self.violation(cat, "duplicate", f"{flow.fid}#{idx} delivered twice", chan=chan.uid)
            return
        if chan.ordered:
            if chan.reliable:
                if idx != flow.next_ordered:
                    self.violation(cat, "order", f"{flow.fid}: delivered #{idx}, expected #{flow.next_ordered}", chan=chan.uid)
            elif idx < flow.next_ordered:
                self.violation(cat, "order", f"{flow.fid}: delivered #{idx} after #{flow.next_ordered - 1}", chan=chan.uid)
            flow.next_ordered = max(flow.next_ordered, idx + 1)
        flow.delivered.append(idx)
        flow.delivered_set.add(idx)
        if len(value) > self.st.USERDATA_MAX_LENGTH:
            self.counters["multifragment_delivered"] += 1

    # ------------------------------------------------------------------ actions

    def start(self, ep):
        async def go():
            caps = self.st.RTCSctpCapabilities(maxMessageSize=65536)
            try:
                await ep.sctp.start(caps, 5000)
            except ConnectionError:
                pass
        return self.loop.create_task(go())

    def at(self, t, fn, *args):
        """Schedule a harness action at virtual time t (relative)."""
        return self.loop.call_at(self.t0 + t, fn, *args)

    def send(self, ep, chan, size, as_str, multibyte=False):
        obj = chan.obj.get(ep.name)
        if obj is None:
            self.counters["send_skipped_no_object"] += 1
            return False
        if obj.readyState != "open":
            self.counters["send_skipped_not_open"] += 1
            return False
        flow = chan.flows[ep.name]
        n = len(flow.sent)
        if size == 0:
            value = "" if as_str else b""
        else:
            value = make_payload(flow.fid, n, size, as_str, multibyte)
        mon = ep.mons[id(obj)]
        flow.sent.append(value)
        flow.sent_t.append(self.loop.time())
        flow.accepted.append(False)
        if flow.post_heal_from is None and self.loop.time() >= self.heal_at:
            flow.post_heal_from = n
        self.log("send", ep.name, chan.uid, n, len(value))
        self.counters["sends"] += 1
        try:
            obj.send(value)
        except Exception as exc:
            flow.sent.pop()
            flow.sent_t.pop()
            flow.accepted.pop()
            self.violation("lifecycle", f"send-raised-{type(exc).__name__}",
                           f"send() on an open channel raised {exc!r}", chan=chan.uid, ep=ep.name)
            return False
        flow.accepted[-1] = True
        enc = len(value.encode()) if isinstance(value, str) else len(value)
        mon.shadow += max(1, enc)
        mon.sample("after-send")
        return True

    def close_channel(self, ep, chan):
        obj = chan.obj.get(ep.name)
        if obj is None:
            return False
        self.log("close()", ep.name, chan.uid)
        chan.close_called = True
        chan.closed_by = getattr(chan, "closed_by", set()) | {ep.name}
        if not hasattr(chan, "close_ctx"):
            chan.close_ctx = []
        chan.close_ctx.append({"ep": ep.name, "assoc": str(getattr(ep.sctp, "_association_state", "?")).split(".")[-1],
                               "sctp_state": ep.sctp.state, "id": obj.id, "ready": obj.readyState, "t": self.now()})
        try:
            obj.close()
        except Exception as exc:
            self.violation("lifecycle", f"close-raised-{type(exc).__name__}", f"close() raised {exc!r}",
                           chan=chan.uid, ep=ep.name)
        ep.mons[id(obj)].sample("after-close()")
        self.counters["close_calls"] += 1
        return True

    # ------------------------------------------------------------------ run phases and end-of-run oracles

    def sample_all(self, where):
        for ep in (self.A, self.B):
            for mon in ep.mons.values():
                mon.sample(where)

    def run_until(self, t):
        r = self.loop.run_until_idle(self.t0 + t)
        if r == "idle" and self.loop.time() < self.t0 + t:
            self.loop._vnow = self.t0 + t  # nothing can happen in between: let (virtual) time pass
        self.sample_all("phase")
        return r

    def drain(self, extra=900.0, step=30.0):
        """After heal: run to quiescence.  Returns 'idle' | 'livelock' | 'slow'."""
        limit = max(self.loop.time(), self.heal_at) + extra
        while True:
            r = self.loop.run_until_idle(min(limit, self.loop.time() + step))
            self.sample_all("drain")
            if r == "idle":
                if self.loop.time() < self.heal_at:
                    self.loop._vnow = self.heal_at  # quiescent before the heal time: whatever follows is post-heal
                return "idle"
            # livelock criterion by counting (DESIGN C02 (d))
            for d in ("A>B", "B>A"):
                if self.lowest_rtx[d] and max(self.lowest_rtx[d].values()) >= 25:
                    return "livelock"
            if self.loop.time() >= limit:
                return "slow"

    def association_alive(self):
        return (self.A.sctp.state == "connected" and self.B.sctp.state == "connected"
                and not self.A.dead and not self.B.dead)

    def undelivered(self, only_reliable=True, post_heal_only=False):
        out = []
        for chan in self.chans.values():
            if only_reliable and not chan.reliable:
                continue
            for src, flow in chan.flows.items():
                dst = "B" if src == "A" else "A"
                if dst not in chan.obj:
                    pending = [i for i, ok in enumerate(flow.accepted) if ok]
                    if pending and not chan.close_called:
                        out.append((chan.uid, flow.fid, "no-remote-object", len(pending)))
                    continue
                start = 0
                if post_heal_only:
                    if flow.probe_from is None:
                        continue
                    start = flow.probe_from
                # empties on unordered/PR flows are tracked by counters, others by index
                missing = []
                for i in range(start, len(flow.sent)):
                    if not flow.accepted[i]:
                        continue
                    v = flow.sent[i]
                    if len(v) == 0 and not (chan.ordered and chan.reliable):
                        continue
                    if i not in flow.delivered_set:
                        missing.append(i)
                if not post_heal_only:
                    for key in ("str", "bytes"):
                        se = sum(1 for i, v in enumerate(flow.sent) if flow.accepted[i] and len(v) == 0 and type(v).__name__ == key)
                        if not (chan.ordered and chan.reliable) and chan.reliable and flow.empties_delivered[key] < se:
                            missing.append(f"empty-{key}")
                if missing and not chan.close_called:
                    out.append((chan.uid, flow.fid, missing[:5], len(missing)))
        return out

    def diagnostics(self):
        d = {}
        for ep in (self.A, self.B):
            s = ep.sctp
            g = lambda name: getattr(s, name, MISSING)
            sent_q = g("_sent_queue")
            inbound = g("_inbound_streams")
            d[ep.name] = {
                "state": s.state,
                "assoc": str(g("_association_state")),
                "flight_size": _plain(g("_flight_size")),
                "cwnd": _plain(g("_cwnd")),
                "sent_queue": len(sent_q) if sent_q is not MISSING else None,
                "sent_queue_head": [(c.tsn, c._acked, c._retransmit, c._abandoned, c._sent_count)
                                    for c in list(sent_q)[:4]] if sent_q is not MISSING else None,
                "outbound_queue": _len(g("_outbound_queue")),
                "dc_queue": _len(g("_data_channel_queue")),
                "t3": g("_t3_handle") not in (None, MISSING),
                "last_received_tsn": _plain(g("_last_received_tsn")),
                "misordered": sorted(g("_sack_misordered"))[:6] if g("_sack_misordered") is not MISSING else None,
                "reassembly": {sid: [(c.tsn, c.flags, c.stream_seq) for c in st_.reassembly[:6]]
                               for sid, st_ in inbound.items() if st_.reassembly} if inbound is not MISSING else None,
                "expected_sseq": {sid: st_.sequence_number for sid, st_ in inbound.items() if st_.reassembly}
                if inbound is not MISSING else None,
                "reconfig_request": repr(g("_reconfig_request")),
                "reconfig_queue": _plain(g("_reconfig_queue")),
                "local_tsn": _plain(g("_local_tsn")),
                "buffered": {c.uid: c.obj[ep.name].bufferedAmount for c in self.chans.values() if ep.name in c.obj
                             and c.obj[ep.name].bufferedAmount},
                "init_after_connected": self.init_after_connected[ep.name],
                "cumtsn_regress": self.cumtsn_regress[ep.name],
                "dead": ep.dead,
            }
        return d

    def check_quiescent_delivery(self, label):
        """C02 (a)+(b): call when the loop is idle after heal."""
        if not self.association_alive():
            return
        self.counters["quiescence_checks"] += 1
        und = self.undelivered(only_reliable=True)
        if und:
            self.violation("stall", None, f"{label}: quiescent with undelivered reliable messages {und[:3]}",
                           diagnostics=self.diagnostics())
        for chan in self.chans.values():
            for epn, obj in chan.obj.items():
                if obj.bufferedAmount != 0 and obj.readyState == "open":
                    self.violation("stall", None, f"{label}: quiescent with bufferedAmount={obj.bufferedAmount} on {chan.uid}@{epn}",
                                   diagnostics=self.diagnostics())

    def probe(self, nfrag=12, include_pr=True):
        """C02 (c) / C06 post-heal: after quiescence on the healed network, a burst larger than the congestion
        window plus a small message on every open channel, in both directions.  Everything sent here must arrive,
        on partially reliable channels too (the link is perfect and nothing from the fault period is outstanding)."""
        if not self.association_alive():
            return 0
        n = 0
        for chan in self.chans.values():
            if chan.close_called or (not chan.reliable and not include_pr):
                continue
            for flow in chan.flows.values():
                if flow.probe_from is None:
                    flow.probe_from = len(flow.sent)
            for ep in (self.A, self.B):
                obj = chan.obj.get(ep.name)
                if obj is not None and obj.readyState == "open" and self.other(ep).name in chan.obj \
                        and chan.obj[self.other(ep).name].readyState == "open":
                    if self.send(ep, chan, nfrag * 1200 - 7, as_str=False):
                        n += 1
                    self.send(ep, chan, 40, as_str=True)
        self.counters["probes"] += n
        return n

    def finish(self):
        """Summary of the case for the property modules."""
        ws = collections.Counter()
        for d in ("A>B", "B>A"):
            for k, v in self.wirestat[d].items():
                ws[k] += v
        link = {
            "sent": self.link_ab.sent + self.link_ba.sent,
            "dropped": self.link_ab.dropped + self.link_ba.dropped,
            "duplicated": self.link_ab.duplicated + self.link_ba.duplicated,
            "reordered": self.link_ab.reordered + self.link_ba.reordered,
        }
        fp = hashlib.blake2b((self.link_ab.fingerprint() + self.link_ba.fingerprint()).encode(), digest_size=8).hexdigest()
        return {"wire": dict(ws), "link": link, "fingerprint": fp}


def _plain(v):
    return None if v is MISSING else v


def _len(v):
    return None if v is MISSING else len(v)


def innermost_repo_frame(exc):
    tb = exc.__traceback__
    where = None
    while tb is not None:
        fn = tb.tb_frame.f_code.co_filename
        if "/aiortc/" in fn and "/verif/" not in fn:
            where = f"{fn.rsplit('/', 1)[-1]}:{tb.tb_frame.f_code.co_name}"
        tb = tb.tb_next
    return where


def exception_detail(exc):
    """Mechanism suffix for the crash classifier: a DCEP OPEN hitting a stream id which is still registered."""
    tb = exc.__traceback__
    while tb is not None:
        f = tb.tb_frame
        if f.f_code.co_name == "_data_channel_receive" and isinstance(exc, AssertionError):
            try:
                sid = f.f_locals.get("stream_id")
                chan = f.f_locals["self"]._data_channels.get(sid)
                if chan is not None:
                    return f"[open-on-{chan.readyState}-id]"
            except Exception:
                return ""
        tb = tb.tb_next
    return ""
