"""R-DTLS: two real RTCDtlsTransports (real OpenSSL handshake, real SRTP) over in-memory ICE stand-ins."""
import asyncio


class MemIce:
    def __init__(self, role):
        self.role = role
        self.rx = asyncio.Queue()
        self.peer = None
        self.closed = False
        self.mutate = None  # callable(bytes) -> bytes | None, applied to outgoing datagrams
        self.sent = 0
        self.state = "completed"

    async def stop(self):
        if not self.closed:
            self.closed = True
            await self.rx.put(None)

    async def _recv(self):
        if self.closed:
            raise ConnectionError
        data = await self.rx.get()
        if data is None:
            raise ConnectionError
        return data

    async def _send(self, data):
        if self.closed:
            raise ConnectionError
        self.sent += 1
        if self.mutate is not None:
            data = self.mutate(data)
            if data is None:
                return
        if self.peer is not None and not self.peer.closed:
            await self.peer.rx.put(data)


class Stub:
    """Recording receiver / sender / data receiver registered on a transport before start()."""

    def __init__(self, transport_getter, name, log):
        self._t = transport_getter
        self.name = name
        self.log = log
        self._ssrc = 0
        self.rtp = []
        self.rtcp = []
        self.data = []
        self.early = []

    def _state(self):
        return self._t().state

    async def _handle_rtp_packet(self, packet, arrival_time_ms):
        if self._state() != "connected":
            self.early.append(("rtp", self._state()))
        self.rtp.append(packet)

    async def _handle_rtcp_packet(self, packet):
        if self._state() != "connected":
            self.early.append(("rtcp", self._state()))
        self.rtcp.append(packet)

    async def _handle_data(self, data):
        if self._state() != "connected":
            self.early.append(("data", self._state()))
        self.data.append(data)

    def _handle_disconnect(self):
        pass


_SHARED_CERTS = []


class DtlsPair:
    def __init__(self, roles=("auto", "auto"), profiles=(None, None), ice_roles=("controlling", "controlled"), shared_certs=False):
        from aiortc.rtcdtlstransport import RTCCertificate, RTCDtlsTransport
        from aiortc.rtcrtpparameters import RTCRtpCodecParameters, RTCRtpDecodingParameters, RTCRtpReceiveParameters, RTCRtpSendParameters

        self.ice = [MemIce(ice_roles[0]), MemIce(ice_roles[1])]
        self.ice[0].peer, self.ice[1].peer = self.ice[1], self.ice[0]
        if shared_certs:
            # an application may create its certificates once and use them for many transports
            if not _SHARED_CERTS:
                _SHARED_CERTS.extend([RTCCertificate.generateCertificate(), RTCCertificate.generateCertificate()])
            self.certs = list(_SHARED_CERTS)
        else:
            self.certs = [RTCCertificate.generateCertificate(), RTCCertificate.generateCertificate()]
        self.t = [RTCDtlsTransport(self.ice[i], [self.certs[i]]) for i in range(2)]
        self.stubs = []
        codec = RTCRtpCodecParameters(mimeType="video/VP8", clockRate=90000, payloadType=96)
        for i in range(2):
            if roles[i] != "auto":
                self.t[i]._set_role(roles[i])
            if profiles[i] is not None:
                self.t[i]._srtp_profiles = list(profiles[i])
            s = Stub(lambda i=i: self.t[i], "AB"[i], None)
            s._ssrc = 1000 + i  # as a sender
            self.stubs.append(s)
            # this side receives the stream the other side sends (ssrc 1000 + other)
            self.t[i]._register_rtp_receiver(s, RTCRtpReceiveParameters(codecs=[codec], encodings=[RTCRtpDecodingParameters(ssrc=1000 + (1 - i), payloadType=96)]))
            self.t[i]._register_rtp_sender(s, RTCRtpSendParameters(codecs=[codec]))
            self.t[i]._register_data_receiver(s)

    def fingerprints(self, i):
        return self.t[i].getLocalParameters().fingerprints

    async def start(self, claimed0, claimed1, timeout=10.0):
        """claimedN = fingerprint list handed to transport N (what it was told about its peer)."""
        from aiortc.rtcdtlstransport import RTCDtlsParameters

        async def one(i, claimed):
            try:
                await self.t[i].start(RTCDtlsParameters(fingerprints=claimed))
                return None
            except Exception as exc:
                return exc

        res = await asyncio.wait_for(asyncio.gather(one(0, claimed0), one(1, claimed1)), timeout)
        return res

    async def settle(self, rounds=30):
        for _ in range(rounds):
            await asyncio.sleep(0)
        await asyncio.sleep(0.01)

    async def close(self):
        for t in self.t:
            try:
                await asyncio.wait_for(t.stop(), 2)
            except Exception:
                pass
        for ic in self.ice:
            await ic.stop()
        await asyncio.sleep(0)
