"""Generated data-channel workloads for the R-SCTP rig (shared by C01, C02, C06, C17)."""
import json

from vt.rigs.sctp import SctpRig

SIZES = [0, 1, 2, 17, 100, 1199, 1200, 1201, 2399, 2400, 2401, 3600, 4801, 12 * 1200 - 1, 12 * 1200 + 1,
         20 * 1200, 40 * 1200 - 1]


def pick_size(rng, big_ok=True):
    r = rng.random()
    if r < 0.45:
        return rng.choice([1, 2, 17, 40, 100, 300])
    if r < 0.55:
        return 0
    if r < 0.85:
        return rng.choice(SIZES[:12])
    if big_ok and r < 0.93:
        return rng.choice(SIZES[12:])
    return rng.randint(1, 6000)


def gen_program(rng, *, mode="reliable", heavy=False, long=False):
    """Return a JSON-able program description."""
    heal = rng.choice([4.0, 8.0, 15.0, 25.0])
    nch = rng.randint(1, 6)
    chans = []
    for k in range(nch):
        ordered = rng.random() < 0.6
        if mode == "reliable":
            mr = mpl = None
        elif mode == "mixed":
            kind = rng.choice(["rel", "rel", "rtx", "rtx", "life", "life"]) if k else "rtx"
            if k == 1:
                kind = "rel"
            mr = rng.choice([0, 0, 1, 3]) if kind == "rtx" else None
            mpl = rng.choice([1, 50, 500, 5000]) if kind == "life" else None
        creator = rng.choice("AB")
        negotiated = rng.random() < 0.25
        t_create = rng.choice([-1.0, -1.0, 0.0, rng.uniform(0, heal * 0.5)])
        chans.append(dict(uid=f"c{k}", creator=creator, ordered=ordered, maxRetransmits=mr,
                          maxPacketLifeTime=mpl, negotiated=(2 * k + 100) if negotiated else None,
                          t=round(t_create, 3)))
    n_msgs = rng.choice([20, 60, 120, 250]) if not long else rng.choice([600, 1500, 3000])
    horizon = heal + rng.choice([0.0, 1.0, 3.0])
    sends = []
    t = 0.0
    burst_left = 0
    for i in range(n_msgs):
        if burst_left:
            burst_left -= 1
        else:
            r = rng.random()
            if r < 0.15:
                burst_left = rng.randint(3, 40)
            t += rng.choice([0.0, 0.0, 0.001, 0.01, 0.05, 0.3, 1.0]) * rng.random() * (horizon / max(4.0, n_msgs / 12))
        if t > horizon:
            t = rng.uniform(0, horizon)
        c = rng.randrange(nch)
        sends.append((round(t, 4), rng.choice("AB"), c, pick_size(rng, big_ok=not long), rng.random() < 0.5,
                      rng.random() < 0.2))
    sends.sort(key=lambda s: s[0])
    # post-heal phase: fresh messages on every channel from both sides
    post = []
    for c in range(nch):
        for ep in "AB":
            for j in range(rng.randint(1, 3)):
                post.append((round(heal + 0.5 + rng.random() * 2, 4), ep, c, rng.choice([1, 40, 1300, 3000]),
                             rng.random() < 0.5, False))
    post.sort(key=lambda s: s[0])
    return dict(heal=heal, chans=chans, sends=sends, post=post,
                start=dict(A=rng.choice([0.0, 0.0, 0.3]), B=rng.choice([0.0, 0.0, 0.2, 1.5])),
                relay=False, heavy=heavy)


def run_program(prog, rng, *, origins=None, relay=False, spec_ab=None, spec_ba=None, probe=True,
                record_wire=False, keep_rig=False, post_hook=None, pre_hook=None):
    if origins is None and prog.get("wrap_origins", True):
        # a third of the programs start one or both TSN spaces shortly before 2^32, so that the wrap happens mid-transfer
        def near():
            return ((1 << 32) - rng.choice([1, 2, 3, rng.randint(4, 60), rng.randint(60, 1500)])) & 0xFFFFFFFF
        r = rng.random()
        if r < 0.34:
            origins = {}
            which = rng.choice(["A", "B", "AB", "AB"])
            for name in which:
                origins[name] = {"tsn": near()}
    rig = SctpRig(rng, heal=prog["heal"], heavy=prog.get("heavy", False), relay=relay, origins=origins,
                  spec_ab=spec_ab, spec_ba=spec_ba, record_wire=record_wire)
    try:
        eps = {"A": rig.A, "B": rig.B}

        def create(c):
            if c["negotiated"] is not None:
                for ep in (rig.A, rig.B):
                    rig.create_channel(ep, c["uid"], ordered=c["ordered"], maxRetransmits=c["maxRetransmits"],
                                       maxPacketLifeTime=c["maxPacketLifeTime"], negotiated_id=c["negotiated"])
            else:
                rig.create_channel(eps[c["creator"]], c["uid"], ordered=c["ordered"],
                                   maxRetransmits=c["maxRetransmits"], maxPacketLifeTime=c["maxPacketLifeTime"])

        for c in prog["chans"]:
            if c["t"] < 0:
                create(c)
            else:
                rig.at(c["t"], create, c)
        pre_hook_ok = pre_hook(rig) if pre_hook is not None else None
        for name, t in prog["start"].items():
            rig.at(t, rig.start, eps[name])

        def do_send(s):
            chan = rig.chans.get(f"c{s[2]}")
            if chan is not None:
                rig.send(eps[s[1]], chan, s[3], s[4], s[5])

        for s in prog["sends"]:
            rig.at(s[0], do_send, s)
        for s in prog["post"]:
            rig.at(s[0], do_send, s)

        def do_close(c):
            chan = rig.chans.get(f"c{c[2]}")
            if chan is not None:
                rig.close_channel(eps[c[1]], chan)

        for c in prog.get("closes", []):
            rig.at(c[0], do_close, c)
        end_actions = max([prog["heal"] + 3.0] + [s[0] for s in prog["sends"]] + [s[0] for s in prog["post"]]
                          + [c[0] for c in prog.get("closes", [])]) + 0.5
        rig.run_until(end_actions)
        outcome = rig.drain()
        result = {"drain": outcome}
        if outcome == "idle":
            rig.check_quiescent_delivery("drain-1")
            if probe and rig.association_alive() and not rig.counters["viol_stall"]:
                if rig.probe():
                    outcome2 = rig.drain()
                    result["drain2"] = outcome2
                    if outcome2 == "idle":
                        rig.check_quiescent_delivery("after-probe")
                    elif outcome2 == "livelock":
                        rig.violation("livelock", None, "after probe: endless retransmission with no progress",
                                      diagnostics=rig.diagnostics())
        elif outcome == "livelock":
            rig.violation("livelock", None, "after heal: the same TSN is retransmitted again and again with no progress",
                          diagnostics=rig.diagnostics(),
                          lowest_rtx={d: dict(list(c.most_common(2))) for d, c in rig.lowest_rtx.items()})
        # PR post-heal obligation (C06): every probe message (sent on the healed network from a quiescent
        # association) is delivered on partially reliable channels too
        if rig.association_alive() and outcome == "idle" and result.get("drain2") == "idle":
            und = rig.undelivered(only_reliable=False, post_heal_only=True)
            und = [u for u in und if not rig.chans[u[0]].reliable]
            rig.counters["pr_postheal_checks"] += 1
            if und:
                rig.violation("pr-postheal", None, f"messages sent after heal+quiescence on PR channels not delivered: {und[:3]}",
                              diagnostics=rig.diagnostics())
        if post_hook is not None:
            post_hook(rig, result)
        for te in rig.task_exceptions:
            if te["type"] not in (None, "CancelledError", "ConnectionError"):
                rig.violation("exception", f"{te['type']}@{te['where']}",
                              f"task failed: {te['type']} at {te['where']}: {te['repr']}")
        result.update(rig.finish())
        result["pre_hook_ok"] = pre_hook_ok
        result["origins"] = origins
        rig.counters["tsn_wrap_origin_runs"] += 1 if origins else 0
        result["diag"] = rig.diagnostics()
        result["counters"] = dict(rig.counters)
        result["violations"] = list(rig.violations)
        result["events_tail"] = [list(map(str, e)) for e in list(rig.events)[-60:]]
        result["states"] = {"A": rig.A.sctp.state, "B": rig.B.sctp.state}
        result["trace"] = rig.trace
        result["specs"] = {"ab": rig.link_ab.model.spec, "ba": rig.link_ba.model.spec}
        result["sent_total"] = sum(len(f.sent) for c in rig.chans.values() for f in c.flows.values())
        if record_wire:
            result["wirelog"] = rig.wire
        if keep_rig:
            result["rig"] = rig
        return result
    finally:
        if not keep_rig:
            rig.close()


def summarize_prog(prog):
    return {"heal": prog["heal"], "chans": prog["chans"], "n_sends": len(prog["sends"]),
            "first_sends": prog["sends"][:5], "start": prog["start"]}
