"""Result accumulator for 'Pure' checks: one case = a batch of generated values (DESIGN 2.5)."""
import collections
import hashlib

from vt.core import contracts


def innermost_repo_frame(exc):
    tb = exc.__traceback__
    where = None
    while tb is not None:
        fn = tb.tb_frame.f_code.co_filename
        if "/aiortc/" in fn and "/verif/" not in fn:
            where = f"{fn.rsplit('/', 1)[-1]}:{tb.tb_frame.f_code.co_name}"
        tb = tb.tb_next
    return where


class Batch:
    def __init__(self, pid, kind, checked_counter="roundtrips_checked"):
        self.pid = pid
        self.kind = kind
        self.counters = collections.Counter()
        self.violations = []
        self.per_key = collections.Counter()
        self.hashes = set()
        self.samples = []
        self.inconclusive = None
        self.checked_counter = checked_counter
        contracts.drain()

    def checked(self, n=1):
        self.counters[self.checked_counter] += n

    def fail(self, key, what, desc=None, exc=None):
        if exc is not None:
            key = f"{key}:{type(exc).__name__}@{innermost_repo_frame(exc)}"
        key = f"{self.pid}/{key}"
        self.per_key[key] += 1
        self.counters["violating_values"] += 1
        if self.per_key[key] <= 2:
            self.violations.append({"key": key, "what": what[:500], "witness": desc})

    def distinct(self, tup):
        self.hashes.add(hashlib.blake2b(repr(tup).encode(), digest_size=8).hexdigest())

    def want_sample(self):
        return not self.samples

    def sample(self, desc):
        self.samples.append(desc)

    def result(self):
        for v in contracts.drain():
            self.fail("contract:" + v["contract"], v["what"], v.get("args"))
        return dict(hashes=sorted(self.hashes), counters=dict(self.counters), violations=self.violations,
                    inconclusive=self.inconclusive, evals=self.counters.get(self.checked_counter, 0),
                    sample=(self.samples[0] if self.samples else {"kind": self.kind}))
