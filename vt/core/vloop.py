"""Virtual-time asyncio event loop (DESIGN 2.2).

``VLoop.time()`` is a virtual clock.  The selector is polled with timeout 0;
when nothing is ready the requested timeout is *added to the clock* instead of
being slept.  ``run_until_idle(limit)`` runs the loop until nothing can ever
happen again (no ready callback, no live timer: "idle") or until the virtual
clock reaches ``limit`` ("limit").
"""
import asyncio
import heapq


class VTimeShim:
    """Stand-in for the ``time`` module inside aiortc modules."""

    def __init__(self, loop, real_time_module):
        self._loop = loop
        self._real = real_time_module

    def time(self):
        return self._loop.time()

    def __getattr__(self, name):
        return getattr(self._real, name)


class VLoop(asyncio.SelectorEventLoop):
    def __init__(self, start=1_000_000.0):
        super().__init__()
        self._vnow = float(start)
        self._vlimit = None
        self._vreason = None
        self.steps = 0
        inner = self._selector.select

        def select(timeout=None):
            events = inner(0)
            if events:
                return events
            if timeout is None:
                # nothing ready, no live timer: nothing can ever happen again
                self._vreason = "idle"
                self._stopping = True
                return events
            if timeout > 0:
                target = self._vnow + timeout
                if self._vlimit is not None and target > self._vlimit:
                    self._vnow = max(self._vnow, self._vlimit)
                    self._vreason = "limit"
                    self._stopping = True
                    return events
                self._vnow = target
            return events

        self._selector.select = select

    def time(self):
        return self._vnow

    def live_timers(self):
        return [h for h in self._scheduled if not h.cancelled()]

    def run_until_idle(self, limit=None):
        """Run until quiescent ('idle') or virtual time ``limit`` ('limit')."""
        self._vlimit = limit
        self._vreason = None
        if limit is not None and self._vnow >= limit and not self._ready:
            return "limit"
        self.run_forever()
        reason = self._vreason or "stopped"
        self._vlimit = None
        return reason

    def run_for(self, duration):
        return self.run_until_idle(self._vnow + duration)

    def _run_once(self):
        self.steps += 1
        # Drop cancelled timers everywhere (the base class only trims the heap
        # head), so that "no live timer" is seen as timeout=None by select().
        if self._scheduled and all(h.cancelled() for h in self._scheduled):
            for h in self._scheduled:
                h._scheduled = False
            self._scheduled.clear()
            self._timer_cancelled_count = 0
        super()._run_once()


def install_vtime(loop, *modules):
    """Replace the ``time`` name inside the given aiortc modules."""
    import time as _time

    shim = VTimeShim(loop, _time)
    saved = []
    for mod in modules:
        saved.append((mod, getattr(mod, "time", None)))
        mod.time = shim
    return saved


def restore_vtime(saved):
    for mod, orig in saved:
        if orig is not None:
            mod.time = orig
