"""Step budgets instead of time-outs (DESIGN 2.5-4).

``run_with_budget(fn, limit, *args)`` runs ``fn`` while sys.monitoring LINE and JUMP events located in the
repository's sources are counted; when the count exceeds ``limit`` a ``BudgetExceeded`` is raised *inside* the
monitored code (a source-free failpoint), which turns "loops for ever / work out of proportion to the input" into a
deterministic verdict.  ``alarm(seconds)`` is the cheap outer guard for hot loops that cannot afford per-call
monitoring: its firing is only a *suspicion*; the caller re-runs the input under ``run_with_budget`` to decide.
"""
import contextlib
import os
import signal
import sys

REPO_MARK = os.sep + "aiortc" + os.sep
TOOL = 4  # a free tool id (0-5; 0 debugger, 1 coverage, 2 profiler, 5 optimizer are conventional)


class BudgetExceeded(BaseException):
    # BaseException: neither the code under test nor a check's own 'except Exception' may swallow the verdict
    def __init__(self, steps, where):
        super().__init__(f"step budget exceeded after {steps} monitored steps at {where}")
        self.steps = steps
        self.where = where


class CaseTimeout(BaseException):
    """Raised by the alarm guard (BaseException: must not be swallowed by 'except Exception' in the code under test)."""


_file_cache = {}


def _in_repo(code):
    fn = code.co_filename
    r = _file_cache.get(fn)
    if r is None:
        r = REPO_MARK in fn and "/verif/" not in fn
        _file_cache[fn] = r
    return r


def run_with_budget(fn, limit, *args, **kwargs):
    """Returns (result, steps). Raises BudgetExceeded from inside fn when more than ``limit`` steps were taken."""
    mon = sys.monitoring
    state = {"n": 0}

    def on_line(code, line):
        if _in_repo(code):
            state["n"] += 1
            if state["n"] > limit:
                where = f"{code.co_filename.rsplit('/', 1)[-1]}:{code.co_name}:{line}"
                state.setdefault("tripped", where)
                raise BudgetExceeded(state["n"], where)

    def on_jump(code, src, dst):
        if _in_repo(code):
            state["n"] += 1
            if state["n"] > limit:
                where = f"{code.co_filename.rsplit('/', 1)[-1]}:{code.co_name}"
                state.setdefault("tripped", where)
                raise BudgetExceeded(state["n"], where)

    mon.use_tool_id(TOOL, "vt-budget")
    try:
        mon.register_callback(TOOL, mon.events.LINE, on_line)
        mon.register_callback(TOOL, mon.events.JUMP, on_jump)
        mon.set_events(TOOL, mon.events.LINE | mon.events.JUMP)
        try:
            result = fn(*args, **kwargs)
        finally:
            mon.set_events(TOOL, 0)
        if "tripped" in state:
            # the exception was raised inside the monitored code but swallowed on the way (an asyncio task stores even
            # BaseExceptions): the verdict stands
            raise BudgetExceeded(state["n"], state["tripped"])
        return result, state["n"]
    finally:
        mon.register_callback(TOOL, mon.events.LINE, None)
        mon.register_callback(TOOL, mon.events.JUMP, None)
        mon.free_tool_id(TOOL)


@contextlib.contextmanager
def alarm(seconds):
    """Wall-clock guard around a block: raises CaseTimeout in the main thread. A suspicion, never a verdict."""
    def handler(signum, frame):
        raise CaseTimeout()

    import time as _time

    outer_left = signal.getitimer(signal.ITIMER_REAL)[0]  # nesting: an outer guard may be armed
    started = _time.monotonic()
    old = signal.signal(signal.SIGALRM, handler)
    signal.setitimer(signal.ITIMER_REAL, seconds)
    try:
        yield
    finally:
        signal.setitimer(signal.ITIMER_REAL, 0)
        signal.signal(signal.SIGALRM, old)
        if outer_left > 0:
            signal.setitimer(signal.ITIMER_REAL, max(0.001, outer_left - (_time.monotonic() - started)))


def confirm_hang(fn, limit, *args):
    """After an alarm fired on fn(*args): decide with the step budget. Returns ('hang', where) | ('slow', steps) | ('ok', steps)."""
    try:
        _, steps = run_with_budget(fn, limit, *args)
        return "ok", steps
    except BudgetExceeded as exc:
        return "hang", exc.where
    except Exception as exc:  # the function finished (by raising) within the budget
        return "ok", repr(exc)[:80]
