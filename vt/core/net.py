"""Fault-injecting datagram links (DESIGN 2.3).

A ``Link`` carries datagrams one way.  For every datagram handed to it a
``FaultModel`` returns a list of delivery delays: ``[]`` = drop, one entry =
deliver, several = duplicate; unequal delays reorder.  Decisions are indexed by
(direction, ordinal) and by a coarse *kind* given by a classifier callback,
never by the datagram's sequence numbers.  After ``heal`` (virtual time) the
model is the identity with a fixed latency.
"""
import hashlib


class FaultModel:
    """Seeded per-direction fault schedule."""

    def __init__(self, rng, heal, spec=None):
        self.rng = rng
        self.heal = heal
        self.spec = spec if spec is not None else self.random_spec(rng)
        self._burst_bad = False
        self._outages = self.spec.get("outages", [])
        self.latency = self.spec.get("latency", 0.02)
        self.forced = None  # replay: list of decisions

    @staticmethod
    def random_spec(rng, heavy=False):
        spec = {"latency": rng.choice([0.005, 0.02, 0.05, 0.15])}
        profile = rng.choice(
            ["clean", "light", "medium", "heavy", "burst", "outage", "sackloss",
             "rtxloss", "dup", "jitter", "kth", "mixed", "mixed", "handshake"]
            if not heavy
            else ["heavy", "burst", "outage", "sackloss", "rtxloss", "mixed", "mixed", "jitter", "handshake"]
        )
        spec["profile"] = profile
        p = {"clean": 0.0, "light": 0.02, "medium": 0.1, "heavy": rng.choice([0.3, 0.45, 0.6])}.get(profile)
        if p is not None:
            spec["loss"] = p
        if profile == "burst":
            spec["gilbert"] = (rng.choice([0.05, 0.15, 0.3]), rng.choice([0.2, 0.4, 0.7]))
        if profile == "outage":
            spec["loss"] = rng.choice([0.0, 0.05])
            spec["outages"] = sorted(
                (rng.uniform(0, 20), rng.choice([0.5, 1.5, 4.0, 8.0])) for _ in range(rng.randint(1, 4))
            )
        if profile == "sackloss":
            spec["kind_loss"] = {"sack": rng.choice([0.5, 0.8, 0.95])}
            spec["loss"] = rng.choice([0.0, 0.05])
        if profile == "rtxloss":
            spec["kind_loss"] = {"rtx": rng.choice([0.5, 0.8])}
            spec["loss"] = rng.choice([0.05, 0.2])
        if profile == "dup":
            spec["dup"] = rng.choice([0.1, 0.3, 0.6])
            spec["loss"] = rng.choice([0.0, 0.1])
            spec["jitter"] = rng.choice([0.0, 0.2])
        if profile == "jitter":
            spec["jitter"] = rng.choice([0.05, 0.5, 2.0, 5.0])
            spec["loss"] = rng.choice([0.0, 0.1])
        if profile == "kth":
            spec["kth"] = rng.choice([2, 3, 5, 7])
        if profile == "handshake" or (profile in ("mixed", "jitter", "dup", "light", "clean") and rng.random() < 0.35):
            # hostile to association set-up: control chunks duplicated and delayed by up to several RTO
            spec["kind_extra"] = {k: (rng.choice([0.5, 1.0]), rng.choice([0.5, 3.5, 7.0]))
                                  for k in rng.sample(["init", "initack", "cookieecho", "cookieack", "reconfig", "fwd"],
                                                      rng.randint(1, 3))}
            spec.setdefault("loss", rng.choice([0.0, 0.1]))
        if profile == "mixed":
            spec["loss"] = rng.choice([0.05, 0.2, 0.4])
            spec["dup"] = rng.choice([0.0, 0.1, 0.3])
            spec["jitter"] = rng.choice([0.0, 0.1, 1.0, 3.0])
            if rng.random() < 0.4:
                spec["outages"] = [(rng.uniform(0, 15), rng.choice([1.5, 4.0]))]
            if rng.random() < 0.3:
                spec["kind_loss"] = {rng.choice(["sack", "rtx", "fwd", "init", "reconfig"]): rng.choice([0.5, 0.9])}
        return spec

    def decide(self, now, t0, ordinal, kind):
        """Return list of delays (seconds) for this datagram."""
        lat = self.latency
        if now >= self.heal:
            return [lat]
        s = self.spec
        rng = self.rng
        rel = now - t0
        if "spare" in s and any(k in s["spare"] for k in kind):
            return [lat]  # this kind of datagram is never touched (e.g. retransmissions in a 'recoverable' phase)
        for start, dur in self._outages:
            if start <= rel < start + dur:
                return []
        kl = s.get("kind_loss")
        if kl:
            for k in kind:
                if k in kl and rng.random() < kl[k]:
                    return []
        if "kth" in s and ordinal % s["kth"] == s["kth"] - 1:
            return []
        if "gilbert" in s:
            pgb, pbg = s["gilbert"]
            if self._burst_bad:
                if rng.random() < pbg:
                    self._burst_bad = False
            elif rng.random() < pgb:
                self._burst_bad = True
            if self._burst_bad:
                return []
        if rng.random() < s.get("loss", 0.0):
            return []
        n = 1
        if rng.random() < s.get("dup", 0.0):
            n = rng.choice([2, 2, 3])
        j = s.get("jitter", 0.0)
        out = [lat + (rng.random() * j if j else 0.0) for _ in range(n)]
        ke = s.get("kind_extra")
        if ke:
            for k in kind:
                if k in ke:
                    pdup, extra = ke[k]
                    if rng.random() < pdup:
                        out.append(lat + rng.random() * extra)
                    if rng.random() < 0.5:
                        out[0] += rng.random() * extra
                    break
        return out


class Link:
    def __init__(self, loop, name, model, deliver, classify=None, t0=None):
        self.loop = loop
        self.name = name
        self.model = model
        self.deliver = deliver
        self.classify = classify or (lambda data: ())
        self.t0 = loop.time() if t0 is None else t0
        self.ordinal = 0
        self.log = []  # (ordinal, kind, decision)
        self.sent = 0
        self.dropped = 0
        self.duplicated = 0
        self.delivered = 0
        self.taps = []  # callbacks (event, ordinal, data, kind)
        self.closed = False
        self._h = hashlib.blake2b(digest_size=8)
        self._arrival = 0
        self.reordered = 0
        self._max_arrived_ord = -1

    def send(self, data):
        if self.closed:
            return
        now = self.loop.time()
        kind = self.classify(data)
        n = self.ordinal
        self.ordinal += 1
        self.sent += 1
        if self.model.forced is not None:
            delays = self.model.forced[n] if n < len(self.model.forced) else [self.model.latency]
        else:
            delays = self.model.decide(now, self.t0, n, kind)
        self.log.append(delays)
        for tap in self.taps:
            tap("tx", n, data, kind, delays)
        if not delays:
            self.dropped += 1
            self._h.update(b"x")
            return
        if len(delays) > 1:
            self.duplicated += 1
        for d in delays:
            self.loop.call_later(d + (n % 1000000) * 1e-9, self._arrive, n, data, kind)

    def _arrive(self, n, data, kind):
        if self.closed:
            return
        self.delivered += 1
        if n < self._max_arrived_ord:
            self.reordered += 1
        else:
            self._max_arrived_ord = n
        self._h.update(n.to_bytes(4, "big"))
        for tap in self.taps:
            tap("rx", n, data, kind, None)
        self.deliver(data)

    def fingerprint(self):
        return self._h.hexdigest()


class PhasedModel:
    """Several FaultModels in sequence: [(end time relative to t0, FaultModel), ...]; after the last one: identity."""

    def __init__(self, phases, latency=0.02):
        self.phases = phases
        self.latency = latency
        self.forced = None
        self.spec = {"phases": [(t, m.spec) for t, m in phases]}
        self.heal = phases[-1][0] if phases else 0.0

    def decide(self, now, t0, ordinal, kind):
        rel = now - t0
        for end, m in self.phases:
            if rel < end:
                return m.decide(now, t0, ordinal, kind)
        return [self.latency]
