"""Sharded case runner, evidence writer, known-finding classification (DESIGN 2.1, 2.9).

A property module provides:
    ID                       "C01"
    RULE                     text: how cases are generated / what is non-trivial
    LEVEL                    "exploration"
    ASSUMPTIONS              list[str]
    plan(tier) -> dict(cases=int, shards=int, timeout=float seconds per shard,
                       min_nontrivial=int, exhaustive=bool (optional))
    run_case(index, rng, tier) -> dict(
        hash=str|None            fingerprint of the case (distinctness)
        nontrivial=bool
        counters=dict[str,int]   what the monitors observed
        violations=[dict(key=str|None, what=str, witness=...)]
        inconclusive=str|None
        sample=object            compact description of the case
        evals=int (optional)     number of oracle evaluations in this case (default 1))
    optional: setup(tier) (per-process init), DECIDING = [counter names that must be > 0]
"""
import hashlib
import importlib
import json
import os
import random
import subprocess
import sys
import time
import traceback

from vt.core.budget import CaseTimeout, alarm, confirm_hang

VERIF = os.path.dirname(os.path.dirname(os.path.dirname(os.path.abspath(__file__))))
PY = "/venv/bin/python"


def repo_src():
    return os.environ.get("VERIF_REPO_SRC", "/repo/src")


def case_rng(seed, prop, index):
    h = hashlib.blake2b(f"{seed}/{prop}/{index}".encode(), digest_size=8).digest()
    return random.Random(int.from_bytes(h, "big"))


def load_prop(pid):
    return importlib.import_module("vt.props." + pid.lower())


# ---------------------------------------------------------------- worker


def decide_case_hang(mod, pid, seed, index, tier, plan):
    """The wall-clock guard of a case fired.  That is only a suspicion: the case is re-run under the step budget
    (sys.monitoring LINE/JUMP events inside the repository's sources); exceeding it is a deterministic verdict that
    repository code loops (violation 'hang@<function>'), finishing within it means the machine was slow (inconclusive)."""
    limit = plan.get("case_steps", 40_000_000)
    try:
        verdict, info = confirm_hang(lambda: mod.run_case(index, case_rng(seed, pid, index), tier), limit)
    except CaseTimeout:
        verdict, info = "slow", "guard fired again"
    if verdict == "hang":
        where = ":".join(str(info).split(":")[:2])
        return {"violations": [{"key": f"{pid}/hang@{where}", "what": f"case {index} does not terminate: more than {limit} monitored "
                                f"steps inside the repository, last at {info}", "witness": {"index": index, "where": info}}],
                "counters": {"case_hangs": 1}, "evals": 0}
    return {"inconclusive": f"case-slow ({str(info)[:60]})", "counters": {"case_slow": 1}, "evals": 0}



def worker_main(argv):
    pid, tier, seed, shard, nshards, out = argv[0], argv[1], int(argv[2]), int(argv[3]), int(argv[4]), argv[5]
    mod = load_prop(pid)
    plan = mod.plan(tier)
    try:
        # a runaway loop in the code under test may allocate without bound until the case guard fires
        import resource

        resource.setrlimit(resource.RLIMIT_AS, (12 << 30, 12 << 30))
    except Exception:
        pass
    if hasattr(mod, "setup"):
        mod.setup(tier)
    res = {
        "evaluations": 0, "cases": 0, "hashes": [], "counters": {}, "violations": [],
        "inconclusive": [], "samples": [], "errors": [],
    }
    deadline = time.time() + plan["timeout"] * 0.9
    indices = range(shard, plan["cases"], nshards)
    hashes = set()
    for index in indices:
        if time.time() > deadline:
            res["inconclusive"].append({"index": index, "reason": "shard-budget-exhausted"})
            break
        rng = case_rng(seed, pid, index)
        try:
            with alarm(plan.get("case_alarm", 150)):
                r = mod.run_case(index, rng, tier)
        except CaseTimeout:
            r = decide_case_hang(mod, pid, seed, index, tier, plan)
        except Exception:
            res["errors"].append({"index": index, "trace": traceback.format_exc()[-3000:]})
            continue
        res["cases"] += 1
        res["evaluations"] += r.get("evals", 1)
        for k, v in r.get("counters", {}).items():
            res["counters"][k] = res["counters"].get(k, 0) + v
        if r.get("inconclusive"):
            res["inconclusive"].append({"index": index, "reason": r["inconclusive"]})
        else:
            hs = r.get("hashes")
            if hs is not None:
                hashes.update(hs)
            elif r.get("nontrivial") and r.get("hash"):
                hashes.add(r["hash"])
        for v in r.get("violations", []):
            v = dict(v)
            v["index"] = index
            res["violations"].append(v)
        if len(res["samples"]) < 2 and r.get("sample") is not None:
            res["samples"].append(r["sample"])
    res["hashes"] = sorted(hashes)[:400000]
    res["hash_count"] = len(hashes)
    with open(out, "w") as f:
        json.dump(res, f, default=repr)


# ---------------------------------------------------------------- parent


def load_findings():
    path = os.path.join(VERIF, "known_findings.json")
    try:
        with open(path) as f:
            data = json.load(f)
    except FileNotFoundError:
        return {}
    out = {}
    for e in data.get("findings", []):
        out[(e["property"], e["key"])] = e
    return out


def child_env():
    env = dict(os.environ)
    deps = os.path.join(VERIF, ".deps")
    env["PYTHONPATH"] = os.pathsep.join([repo_src(), VERIF, deps])
    env["PYTHONHASHSEED"] = "0"
    env["AIORTC_VERIF"] = "1"
    env.setdefault("PYTHONWARNINGS", "ignore")
    return env


def ensure_deps():
    deps = os.path.join(VERIF, ".deps")
    if not os.path.isdir(os.path.join(deps, "icontract")):
        subprocess.run(["/bin/sh", os.path.join(VERIF, "setup.sh")], check=False,
                       stdout=subprocess.DEVNULL, stderr=subprocess.DEVNULL)


def run_property(pid, tier, seed, jobs=None, only_index=None):
    t0 = time.time()
    ensure_deps()
    sys.path[:0] = [repo_src(), os.path.join(VERIF, ".deps")]
    mod = load_prop(pid)
    plan = mod.plan(tier)
    nshards = min(plan.get("shards", 16), jobs or os.cpu_count() or 4, max(1, plan["cases"]))
    tmpdir = os.path.join(VERIF, ".run", f"{pid}-{os.getpid()}")
    os.makedirs(tmpdir, exist_ok=True)
    procs = []
    env = child_env()
    for s in range(nshards):
        out = os.path.join(tmpdir, f"shard{s}.json")
        log = open(os.path.join(tmpdir, f"shard{s}.log"), "w")
        p = subprocess.Popen(
            [PY, "-m", "vt.worker", pid, tier, str(seed), str(s), str(nshards), out],
            env=env, cwd=VERIF, stdout=log, stderr=subprocess.STDOUT,
        )
        procs.append((s, p, out, log))
    merged = {"evaluations": 0, "cases": 0, "counters": {}, "violations": [], "inconclusive": [],
              "samples": [], "errors": [], "dead_shards": []}
    hashes = set()
    hash_overflow = 0
    deadline = time.time() + plan["timeout"]
    for s, p, out, log in procs:
        try:
            p.wait(timeout=max(1.0, deadline - time.time()))
        except subprocess.TimeoutExpired:
            p.kill()
            p.wait()
            merged["dead_shards"].append({"shard": s, "reason": "watchdog"})
            log.close()
            continue
        log.close()
        if p.returncode != 0 or not os.path.exists(out):
            tail = ""
            try:
                with open(os.path.join(tmpdir, f"shard{s}.log")) as f:
                    tail = f.read()[-2000:]
            except OSError:
                pass
            merged["dead_shards"].append({"shard": s, "reason": f"exit {p.returncode}", "log": tail})
            continue
        with open(out) as f:
            r = json.load(f)
        merged["evaluations"] += r["evaluations"]
        merged["cases"] += r["cases"]
        for k, v in r["counters"].items():
            merged["counters"][k] = merged["counters"].get(k, 0) + v
        merged["violations"] += r["violations"]
        merged["inconclusive"] += r["inconclusive"]
        merged["errors"] += r["errors"]
        if len(merged["samples"]) < 4:
            merged["samples"] += r["samples"][:1]
        hashes.update(r["hashes"])
        hash_overflow += max(0, r.get("hash_count", 0) - len(r["hashes"]))
    # clean scratch
    for fn in os.listdir(tmpdir):
        try:
            os.unlink(os.path.join(tmpdir, fn))
        except OSError:
            pass
    try:
        os.rmdir(tmpdir)
    except OSError:
        pass

    findings = load_findings()
    known_hits = {}
    unknown = []
    for v in merged["violations"]:
        key = v.get("key")
        if key and (pid, key) in findings:
            known_hits.setdefault(key, []).append(v)
        else:
            unknown.append(v)

    lines = []
    for key, vs in sorted(known_hits.items()):
        wf = findings[(pid, key)]["what_fails"]
        wf = wf if len(wf) <= 240 else wf[:237] + "..."
        lines.append(f"KNOWN-FINDING: property={pid} {key}: {wf} ({len(vs)} case(s) this run)")
    replay_dir = os.path.join(VERIF, "replays")
    os.makedirs(replay_dir, exist_ok=True)
    seen_keys = set()
    for v in unknown:
        k = v.get("key") or v.get("what", "")[:60]
        if k in seen_keys:
            continue  # one replay per distinct mechanism (first witness kept); all are counted
        seen_keys.add(k)
        name = f"{pid}-{seed}-{v['index']}-{hashlib.blake2b(k.encode(), digest_size=4).hexdigest()}.json"
        path = os.path.join(replay_dir, name)
        with open(path, "w") as f:
            json.dump({"property": pid, "tier": tier, "seed": seed, "index": v["index"],
                       "key": v.get("key"), "what": v.get("what"), "witness": v.get("witness")},
                      f, indent=1, default=repr)
        lines.append(f"VIOLATION property={pid} replay={path}")
        lines.append(f"  what: {v.get('what')}")

    # run-level inconclusive
    inconclusive_reasons = []
    if merged["dead_shards"]:
        inconclusive_reasons.append(f"{len(merged['dead_shards'])} shard(s) died")
    if merged["errors"]:
        inconclusive_reasons.append(f"{len(merged['errors'])} harness error(s): " + merged["errors"][0]["trace"][-300:].replace("\n", " | "))
    for name in getattr(mod, "DECIDING", []):
        if merged["counters"].get(name, 0) == 0:
            inconclusive_reasons.append(f"deciding monitor counter {name} is zero")
    distinct = len(hashes) + hash_overflow
    if distinct < plan.get("min_nontrivial", 2):
        inconclusive_reasons.append(f"only {distinct} distinct non-trivial cases (< {plan.get('min_nontrivial', 2)})")
    if merged["cases"] and len(merged["inconclusive"]) > 0.05 * max(merged["cases"], 1):
        inconclusive_reasons.append(f"{len(merged['inconclusive'])} of {merged['cases']} cases inconclusive")

    wall = time.time() - t0
    inc_summary = {}
    for i in merged["inconclusive"]:
        inc_summary[i["reason"]] = inc_summary.get(i["reason"], 0) + 1
    evidence = {
        "property_id": pid,
        "tier": tier,
        "seed": seed,
        "level": getattr(mod, "LEVEL", "exploration"),
        "coverage": {
            "evaluations": merged["evaluations"],
            "cases": merged["cases"],
            "distinct_nontrivial": distinct,
            "rule": mod.RULE,
            "samples": merged["samples"][:4],
            "observed": merged["counters"],
            "inconclusive_cases": inc_summary,
            "known_findings_hit": {k: len(v) for k, v in known_hits.items()},
            "exhaustive": bool(plan.get("exhaustive", False)),
            "explanation": getattr(mod, "EXPLANATION", ""),
            "shards": nshards,
            "repo_src": repo_src(),
        },
        "assumptions": getattr(mod, "ASSUMPTIONS", []),
        "wall_s": round(wall, 2),
        "violations": len(unknown),
    }
    if repo_src() == "/repo/src":
        os.makedirs(os.path.join(VERIF, "evidence"), exist_ok=True)
        with open(os.path.join(VERIF, "evidence", f"{pid}.json"), "w") as f:
            json.dump(evidence, f, indent=1, default=repr)

    for line in lines:
        print(line)
    obs = ", ".join(f"{k}={v}" for k, v in sorted(merged["counters"].items()))
    print(f"[{pid}/{tier}] cases={merged['cases']} evaluations={merged['evaluations']} distinct_nontrivial={distinct} "
          f"violations={len(unknown)} known={sum(len(v) for v in known_hits.values())} "
          f"inconclusive_cases={len(merged['inconclusive'])} wall={wall:.1f}s")
    print(f"[{pid}/{tier}] observed: {obs}")
    if unknown:
        return 1
    if inconclusive_reasons:
        print(f"INCONCLUSIVE property={pid} reason={'; '.join(inconclusive_reasons)}")
        for d in merged["dead_shards"][:2]:
            print("  shard", d.get("shard"), d.get("reason"), (d.get("log") or "")[-800:])
        return 2
    return 0


def replay(path):
    with open(path) as f:
        rp = json.load(f)
    ensure_deps()
    sys.path[:0] = [repo_src(), os.path.join(VERIF, ".deps")]
    mod = load_prop(rp["property"])
    if hasattr(mod, "setup"):
        mod.setup(rp["tier"])
    rng = case_rng(rp["seed"], rp["property"], rp["index"])
    r = mod.run_case(rp["index"], rng, rp["tier"])
    print(json.dumps({"violations": r.get("violations"), "counters": r.get("counters"),
                      "inconclusive": r.get("inconclusive")}, indent=1, default=repr)[:20000])
    findings = load_findings()
    bad = [v for v in r.get("violations", []) if not (v.get("key") and (rp["property"], v["key"]) in findings)]
    if bad:
        print(f"VIOLATION property={rp['property']} replay={path}")
        return 1
    return 0
