"""Runtime contracts (icontract) on real aiortc functions, installed from the harness (DESIGN 2.5-2).

Conditions *record and return True*: a broken contract never changes the behaviour of the code it observes
(some of these functions run inside asyncio tasks of the rigs); the recorded violations are drained by the check.
Every contract counts its evaluations; zero evaluations => the check is inconclusive, not held.
"""
import collections
import sys

import icontract

COUNTS = collections.Counter()
VIOLATIONS = []
_installed = set()


class ContractBroken(AssertionError):
    pass


def contract_counts():
    return dict(COUNTS)


def drain():
    out = list(VIOLATIONS)
    VIOLATIONS.clear()
    return out


def record(name, ok, what, args=None):
    COUNTS[name] += 1
    if not ok and len(VIOLATIONS) < 50:
        VIOLATIONS.append({"contract": name, "what": what, "args": repr(args)[:300]})
    return True


def rebind(module_name, attr, wrapped, original):
    """Replace ``attr`` in its home module and in every aiortc module that imported the name."""
    for name, mod in list(sys.modules.items()):
        if mod is None or not (name == module_name or name.startswith("aiortc")):
            continue
        if getattr(mod, attr, None) is original:
            setattr(mod, attr, wrapped)


def install(module, attr, *decorators):
    key = (module.__name__, attr)
    if key in _installed:
        return
    original = getattr(module, attr)
    wrapped = original
    for dec in decorators:
        wrapped = dec(wrapped)
    rebind(module.__name__, attr, wrapped, original)
    _installed.add(key)


# --------------------------------------------------------------------------------------------- aiortc.rtp


def install_rtp_contracts():
    from aiortc import rtp

    unpack_ext = rtp.unpack_header_extensions
    unpack_remb = rtp.unpack_remb_fci
    unpack_lost = rtp.unpack_packets_lost

    def hdrext_post(extensions, result):
        profile, value = result
        ok = len(value) % 4 == 0 and profile in (0, 0xBEDE, 0x1000) and (bool(extensions) == bool(value))
        if ok and extensions:
            try:
                ok = unpack_ext(profile, value) == list(extensions)
            except Exception:
                ok = False
        return record("pack_header_extensions", ok,
                      f"pack_header_extensions({extensions!r}) -> profile {profile:#x}, {len(value)} bytes: not a "
                      "4-byte multiple / unknown profile / does not unpack to the same (id, value) list", extensions)

    def clamp_post(count, result):
        lo, hi = -(1 << 23), (1 << 23) - 1
        return record("clamp_packets_lost", result == max(lo, min(count, hi)),
                      f"clamp_packets_lost({count}) = {result}", count)

    def lost_post(count, result):
        ok = len(result) == 3
        if ok and -(1 << 23) <= count <= (1 << 23) - 1:
            ok = unpack_lost(result) == count
        return record("pack_packets_lost", ok, f"pack_packets_lost({count}) = {result!r} does not unpack to it", count)

    def remb_post(bitrate, ssrcs, result):
        try:
            b2, s2 = unpack_remb(result)
            ok = s2 == list(ssrcs) and 0 <= bitrate - b2 and ((bitrate - b2) << 17) < max(bitrate, 1) or (b2 == bitrate and s2 == list(ssrcs))
        except Exception:
            ok = False
        return record("pack_remb_fci", bool(ok), f"pack_remb_fci({bitrate}, {len(ssrcs)} ssrcs) does not unpack to it "
                      "(rounded up, error >= 2^-17, or SSRC list differs)", (bitrate, len(ssrcs)))

    def rtcp_post(packet_type, count, payload, result):
        ok = 0 <= count <= 31 and len(result) == 4 + len(payload) and result[0] >> 6 == 2 and result[1] == packet_type
        return record("pack_rtcp_packet", ok, f"pack_rtcp_packet(type {packet_type}, count {count}, {len(payload)} bytes) "
                      "builds a header whose version/count/type/length fields do not say so", (packet_type, count))

    install(rtp, "pack_header_extensions", icontract.ensure(hdrext_post, error=ContractBroken))
    install(rtp, "clamp_packets_lost", icontract.ensure(clamp_post, error=ContractBroken))
    install(rtp, "pack_packets_lost", icontract.ensure(lost_post, error=ContractBroken))
    install(rtp, "pack_remb_fci", icontract.ensure(remb_post, error=ContractBroken))
    install(rtp, "pack_rtcp_packet", icontract.ensure(rtcp_post, error=ContractBroken))
