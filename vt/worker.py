import sys

from vt.core.runner import worker_main

if __name__ == "__main__":
    worker_main(sys.argv[1:])
