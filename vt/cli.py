"""./check <ID> [--tier quick|thorough] [--seed N] [--jobs N] [--replay file] [--selftest]"""
import argparse
import os
import sys

from vt.core import runner


def main():
    ap = argparse.ArgumentParser()
    ap.add_argument("prop")
    ap.add_argument("--tier", default=os.environ.get("VERIF_TIER", "quick"))
    ap.add_argument("--seed", type=int, default=int(os.environ.get("VERIF_SEED", "0")))
    ap.add_argument("--jobs", type=int, default=None)
    ap.add_argument("--replay", default=None)
    a = ap.parse_args()
    if a.tier not in ("quick", "thorough"):
        a.tier = "quick"
    if a.replay:
        sys.exit(runner.replay(a.replay))
    sys.exit(runner.run_property(a.prop.upper(), a.tier, a.seed, a.jobs))


if __name__ == "__main__":
    main()
