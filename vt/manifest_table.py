def fill(check, na):
    check("C01", "online uid-history oracle (prefix / duplicate-free sub-multiset) on real SCTP stacks under seeded fault schedules in virtual time",
          "Held on the executions produced: every message event of every run is checked against the send log (value, type, "
          "order, channel). Reach comes from thousands of distinct fault schedules per run (a third with TSN spaces starting shortly "
          "before 2^32; relay cases whose sends suspend for virtual time; one case in eight is a create/send/close program with "
          "re-used ids - one mechanism there, shared with C13, is a listed known finding); nothing is proved.",
          "DTLS layer replaced by a non-suspending stand-in (plus a labelled yielding relay mode); virtual clock substituted for time.time in rtcsctptransport; pyee/crc32c trusted.",
          "DESIGN.md 3/C01")
    check("C02", "bounded-progress oracle at loop quiescence (delivered==sent, bufferedAmount==0, probe burst, livelock by counting) after seeded fault prefixes in virtual time",
          "Liveness restated as bounded progress: after heal the loop must become quiescent with nothing outstanding and a probe "
          "burst > cwnd must get through; verdict taken on loop state, not on deadlines. Exploration of sampled fault prefixes.",
          "Same rig as C01. 'Quiescent' = no ready callback and no live timer. Cases that neither quiesce nor livelock within 900 virtual s are inconclusive.",
          "DESIGN.md 3/C02")
    check("C06", "online uid-history oracle on mixed reliable / partially reliable channels + quiescence and post-heal probe obligations, seeded fault schedules in virtual time",
          "Held on the executions produced: PR deliveries are exact duplicate-free copies in order; reliable channels sharing the "
          "association keep the C01/C02 guarantees; after heal and quiescence every channel carries fresh traffic again.",
          "Same rig as C01. maxPacketLifeTime is driven by the virtual clock. Post-heal obligation starts at the first quiescence after heal.",
          "DESIGN.md 3/C06")
    check("C13", "per-object lifecycle automaton + datachannel-event matcher + bufferedAmount shadow evaluated at every event/API call, close-completion and id-reuse obligations at quiescence; generated create/send/close programs under seeded fault schedules in virtual time",
          "Held on the executions produced: every readyState sample, every datachannel/open/close/bufferedamountlow event and every "
          "bufferedAmount reading of every channel object is checked online against a small automaton and a byte-count shadow; at "
          "post-heal quiescence close() must have closed both ends and freed the id (close() may also come from inside the open "
          "handler). Two mechanisms are listed known findings.",
          "Same rig as C01. bufferedAmount equality is evaluated while the channel is open and no hand-over is suspended (relay mode). Known findings are suppressed by mechanism classifiers over the witness, see known_findings.json.",
          "DESIGN.md 3/C13")
    check("C07", "round-trip / field-semantics oracles on generated RTP and RTCP values through the real builders and parsers, icontract post-conditions on the packing helpers",
          "Held on the values generated: every value of every batch is serialised with the real code, parsed back and compared "
          "field by field; NACK sets, cumulative-loss clamp, REMB mantissa bounds and RTX inversion are checked exactly. Sampled, "
          "with the (single lost, follower distance 1..17) NACK grid enumerated in slices.",
          "Values are generated inside the wire ranges; padding bytes are random by design and not compared; extensions not configured in the id map are not expected to survive.",
          "DESIGN.md 3/C07")
    check("C08", "round-trip oracle on generated chunks of every class through serialize_packet/parse_packet + bit-burst injection (every position x every length 1..32, plus bursts aimed at the checksum field) with a counting wrapper on the chunk constructors; re-serialisation after field changes; chunk-to-wire conformance monitor on running SCTP associations (fields of every chunk handed to _send_chunk vs the datagram on the link)",
          "Held on the packets and bursts generated: every chunk class round-trips field-equal and byte-identical; every injected "
          "burst is rejected with the checksum error before any chunk constructor runs. Positions and lengths are enumerated per "
          "sampled packet; interiors are sampled except for short bursts on short packets (all interiors, exhaustive sub-space). "
          "Every chunk a running association put on the wire in the lossy mixed-reliability programs parsed back to the fields it was built with.",
          "google-crc32c trusted; the full space of packets x bursts is sampled, never exhausted.",
          "DESIGN.md 3/C08")
    check("C16", "lossless-round-trip and size-limit oracles on the real packetisers (H264Encoder._packetize/pack, Vp8Encoder._packetize/pack) through the real depayloaders, plus an independent RFC 6184 payload reader",
          "Held on the inputs generated: every payload is <= 1300 bytes and depacketising reproduces the bitstream byte for byte; "
          "FU-A / STAP-A / VP8 descriptor structure is checked by an independent reader; two packetisations interleaved at a NAL "
          "boundary give the same output as one after the other. Single-NAL sizes 2..5200, VP8 sizes "
          "0..5200 and all 15-bit picture ids are enumerated completely; longer sequences are sampled around the fragment-size multiples.",
          "NAL bodies are Annex-B clean; PyAV trusted for av.Packet.",
          "DESIGN.md 3/C16")
    check("C10", "invariant + history oracle on the real JitterBuffer: unique arrival ids as packet data, frame integrity / no-reuse / order / PLI-on-discard / occupancy checked after every add(), completeness against the generated stream for benign histories",
          "Held on the histories generated: every released frame is decoded back to the arrivals it was built from and checked; "
          "ring occupancy and PLI obligations are evaluated around every add(); padding-only packets are part of the streams. Histories are sampled over capacities, prefetch, "
          "audio/video and fault modes; all arrival permutations of 5-6 packets with <= 1 duplicate at capacity 4 are enumerated.",
          "Lateness is measured against the highest sequence number seen; ring contents are read from the private _packets attribute for the PLI/occupancy clauses.",
          "DESIGN.md 3/C10")
    check("C12", "reference-model monitor: the real RtpRouter is compared after every operation with a small executable router written from the statement, plus a tombstone check (nothing unregistered is ever returned); the same histories behind a real RTCDtlsTransport object incl. compound RTCP and unregistration from inside a handler",
          "Held on the histories generated: every route_rtp / route_rtcp return value of every history equals the reference "
          "router's. Random histories of 20-200 operations over overlapping SSRC / payload-type sets; all histories up to length "
          "4 (quick) / 5 (thorough) over a 21-symbol alphabet on 2 receivers x 2 payload types x 2 SSRCs are enumerated.",
          "Receivers/senders are opaque stubs; SDES only gets the tombstone clause; truncated REMB FCIs belong to C05.",
          "DESIGN.md 3/C12")
    check("C15", "wrapper oracles on the real RemoteBitrateEstimator.add (result shape, REMB encodability, SSRC list, cap and over-use bounds from the wrapped measurement/detector) + brute-force shadow of the 1000 ms measurement window; RateCounter against a brute-force model",
          "Held on the arrival histories generated: every call of add() and every estimate is checked; the measurement returned "
          "by the real rate counter is recomputed by brute force over the packets of the last 1000 ms. Histories are sampled from "
          "phase scripts that drive the controller through over-use, decrease, near-max additive increase and throughput collapse.",
          "Bounds are evaluated once a measurement exists (before that the controller uses its 30 Mbit/s default); > 255 SSRCs is a listed known finding.",
          "DESIGN.md 3/C15")
    check("C18", "reference-model monitor: the real StreamStatistics is compared after every packet and at every report point with an RFC 3550 A.1/A.3/A.8 model in Python integers; the real RTCRtpReceiver._run_rtcp is driven in virtual time and every RR on the wire is compared with the model",
          "Held on the arrival histories generated: counters, cumulative loss, extended highest sequence number and jitter agree "
          "with the model after every add(); fraction lost at every report; every report serialises and parses back; the RTCP "
          "task survives; getStats() between reports shows the same figures and does not disturb the next report. Histories are sampled (loss, duplication, reordering, sequence cycles, timestamp wrap, hostile "
          "timestamps, clock jumps).",
          "Arrival clock = scripted replacement of time.time() in the receiver module (epochs 0, present day, shortly before clock x rate crosses a multiple of 2^32); clock jumps <= 4 h; report path behind a stub transport (no DTLS).",
          "DESIGN.md 3/C18")
    check("C17", "metamorphic monitor: same program / arrival pattern and same fault decisions run with small and with wrapping sequence-number origins, observable traces compared; RFC 1982 oracle on the serial-number helpers (whole rows, all 2^32 16-bit pairs in the thorough tier)",
          "Held on the paired runs produced: delivery traces with virtual timestamps, channel events, drain verdicts (SCTP), released "
          "frames, PLI flags, NACK sets and report figures (RTP, un-shifted) are identical between origins 1000 and origins within "
          "400 of the wrap. Serial comparisons agree with RFC 1982 on every pair examined.",
          "Stream sequence origins are preset from outside on negotiated channels; origins are injected by replacing random32 in the SCTP module namespace.",
          "DESIGN.md 3/C17")
    check("C09", "round-trip / fixed-point / idempotence oracles on SDP: library-generated descriptions of real RTCPeerConnection pairs, generated SessionDescription objects, and mutated accepted texts, with an independent line reader for field recovery",
          "Held on the texts generated: every library-generated description is a fixed point of parse-then-serialise and every "
          "listed field agrees with an independent reader of the text; generated objects come back field-equal; accepted mutated "
          "texts are idempotent after one round; candidate lines and the signalling helper round-trip exactly. Sampled.",
          "Connection addresses are IP literals except a dedicated host-name mutation; a parser rejection of a mutated text is not judged.",
          "DESIGN.md 3/C09")
    check("C14", "automaton monitor: a 4-state JSEP model per peer gives the admissible outcome of every signalling call on real RTCPeerConnection pairs; state, descriptions and signalingstatechange events are compared after every call; all sequences up to a length bound are enumerated; two calls in flight are checked for linearizability against the same automaton",
          "Held on the call sequences executed: every call's outcome (success / InvalidStateError / ValueError) and the resulting "
          "signalingState agree with the automaton; rejected calls leave state and both descriptions unchanged and fire no event. "
          "Exhaustive for all sequences up to length 3 (quick) / 4 (thorough) over 20 symbols on one media shape, random longer "
          "sequences over four shapes. Overlapping calls: two mechanisms of the unchanged tree are listed known findings.",
          "Real aioice gathering (real time), no connectivity awaited; createOffer in have-remote-offer accepted either way; overlapping invocations are read as being in scope of 'any sequence of calls'.",
          "DESIGN.md 3/C14")
    check("C03", "history/structure oracles on real RTCPeerConnection pairs over generated configurations: exceptions and signalling states of the legal call sequence, independent SDP reader for answer-mirrors-offer, complementary directions, then observed connectivity (transport states, data channels opening and carrying uid messages) in real time",
          "Held on the configurations executed: each negotiation succeeded, the answer mirrors the offer and only selects what "
          "was offered, directions are complementary, every negotiated transport connected and every negotiated data channel "
          "carried a message each way and, when reliable, a burst of empty / non-ASCII / multi-fragment / binary messages exactly once and in order, also after a follow-up round. Configurations are sampled from the product space; the "
          "small sub-space is enumerated in the thorough tier.",
          "Real aioice over local UDP in real time; answerer codec preferences cannot empty the intersection; one DTLS handshake datagram is lost in a third of the cases; wall-clock caps decide only when a heartbeat shows the event loop was alive, otherwise the case is inconclusive.",
          "DESIGN.md 3/C03")
    check("C19", "step-indexed close() injection on real RTCPeerConnection pairs (every event-loop step of the scenario is a candidate instant), completion decided by heartbeat + await-chain analysis, then state / channel / track / late-event / leftover-task and thread monitors",
          "Held on the runs executed: close() completed, a second close() was a no-op, the three states were 'closed', every data "
          "channel handed out was closed, received tracks ended for a consumer, no event fired afterwards and no aiortc/aioice "
          "task or decoder thread was left. Instants are a stratified sample of the scenario's event-loop steps (all steps for some "
          "configurations in the thorough tier); seven close modes; strata with trickle-style signalling (candidates late / never), "
          "ICE failing before close and a remote SCTP ABORT followed by one more channel.",
          "Real aioice over local UDP in real time; step numbering varies slightly with network timing; a close() pending at the cap while waiting on a timer/socket is inconclusive.",
          "DESIGN.md 3/C19")
    check("C11", "closed-loop history oracle: real RTCRtpSender -> fault links -> real RTCRtpReceiver in virtual time with a decoder tap; every handed-over frame is matched byte for byte against the sent frames (uid payloads), NACK/RTX obligations are checked against the link's drop log",
          "Held on the runs produced: every frame handed to the decoder was a sent frame (or a legitimate tail after start / PLI), "
          "in order, once; every packet lost while requests and retransmissions got through was NACKed and resent (RTX when "
          "negotiated) and every frame of that phase was delivered; NACKs stayed within the 128-packet history. A monitor on the real "
          "JitterBuffer attributes replays / thrown-away frames to restarts by packets >= 100 late (listed known finding). Fault schedules, "
          "frame sizes, codecs, RTX and sequence/timestamp origins (incl. wrap) are sampled.",
          "DTLS/SRTP bypassed (C04 covers them); decoder thread replaced by a synchronous tap; virtual time.",
          "DESIGN.md 3/C11")
    check("C04", "specification predicate + delivery monitors on real RTCDtlsTransport pairs (real OpenSSL handshake and SRTP): connect-iff-verified over the class-reduced fingerprint matrix, recording receivers registered before start(), uid traffic and bit-flip tampering for every SRTP profile list x role cell",
          "Held on the handshakes executed: a side reached 'connected' exactly when its fingerprint list verifies the peer "
          "(harness-side predicate; lists naming one hash twice included), nothing was delivered on a side that was not connected - also "
          "when an eager server's first application record shares a datagram with its last handshake flight - a side that refused "
          "its peer emitted nothing when asked to send, and for every SRTP profile / role "
          "cell all RTP, RTCP and data units arrived byte-identical while nothing altered in transit was delivered. The "
          "class-reduced matrices are enumerated across a run; payloads and bit positions are sampled.",
          "OpenSSL / pyOpenSSL / libsrtp trusted; in-memory ICE stand-in without loss during the handshake.",
          "DESIGN.md 3/C04")
    check("C05", "contract + step-budget monitor (sys.monitoring) on the wire parsers; hostile datagrams (adversarial fields, and well-formed ones out of context: verbatim replays, ABORT, matching RE-CONFIG responses) into a real SCTP association in several states and into a real connected DTLS transport with real receiver / sender, followed by a fresh-traffic probe",
          "Held on the inputs generated: every parser returned or raised ValueError within a step budget proportional to the input; "
          "no exception escaped the SCTP receive path, associations stayed usable, rejected datagrams changed nothing; a real DTLS "
          "transport stayed 'connected' and delivered valid media and data afterwards. Inputs are random, mutated and "
          "structure-aware (adversarial lengths and counts); sampled.",
          "Work is measured in monitored interpreter steps inside the repository; OpenSSL / libsrtp / PyAV trusted; accepted hostile chunks may break the lying peer's own data.",
          "DESIGN.md 3/C05")
